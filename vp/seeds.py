"""
Seeded changes written by independent sub-agents (see DESIGN.md, "Seeded changes").

    python -m vp.seeds confirm <src_dir> <seed-id>     confirm in a scratch worktree, then copy to seeded/<seed-id>/
    python -m vp.seeds check <seed-id|ALL> [--tier quick] [--props C01,C13]
                                                   run the registered check(s) against the patched copy

``confirm`` does what the brief asks before a change is kept: in a fresh git
worktree of /repo (under $TMPDIR, removed afterwards) it applies patch.diff,
runs the demonstration (must exit non-zero), runs the repository's pinned test
suite (must give the baseline: 298 passed, the 2 always-failing tests), reverts
the patch and runs the demonstration again (must exit 0).  /repo itself is
never modified.
"""
import json
import os
import re
import shutil
import subprocess
import sys
import tempfile
import time

HERE = os.path.dirname(os.path.dirname(os.path.abspath(__file__)))
REPO = '/repo'
SEEDED = os.path.join(HERE, 'seeded')
PY = '/venv/bin/python'
BASELINE_FAIL = {'test_xdoc_console_script_exec', 'test_xdoc_console_script_location'}


def sh(cmd, **kw):
    return subprocess.run(cmd, stdout=subprocess.PIPE, stderr=subprocess.STDOUT, text=True, **kw)


def run_demo(demo, tree):
    env = dict(os.environ)
    env['PYTHONPATH'] = os.path.join(tree, 'src')
    env['PYTHONDONTWRITEBYTECODE'] = '1'
    for k in list(env):
        if k.startswith('XDOCTEST_'):
            del env[k]
    d = tempfile.mkdtemp(prefix='seeddemo_')
    try:
        p = sh([PY, os.path.abspath(demo)], env=env, cwd=d, timeout=1800)
    finally:
        shutil.rmtree(d, ignore_errors=True)
    return p.returncode, p.stdout[-1500:]


def run_suite(tree):
    env = dict(os.environ)
    env['PYTHONPATH'] = os.path.join(tree, 'src')
    env['PYTHONDONTWRITEBYTECODE'] = '1'
    p = sh([PY, '-m', 'pytest', '-q', '-p', 'no:cacheprovider', '--timeout=900', '--continue-on-collection-errors',
            '-rf'], env=env, cwd=tree, timeout=3600)
    tail = p.stdout[-3000:]
    m = re.search(r'(\d+) failed', tail)
    n_failed = int(m.group(1)) if m else 0
    m = re.search(r'(\d+) passed', tail)
    n_passed = int(m.group(1)) if m else 0
    failed_names = set(re.findall(r'^FAILED \S+::(\w+)', p.stdout, flags=re.M))
    return n_passed, n_failed, sorted(failed_names), tail


def confirm(src, seed_id):
    src = os.path.abspath(src)
    patch = os.path.join(src, 'patch.diff')
    demo = os.path.join(src, 'demo.py')
    meta = {}
    mp = os.path.join(src, 'meta.json')
    if os.path.exists(mp):
        try:
            with open(mp) as f:
                meta = json.load(f)
        except Exception:  # noqa
            meta = {'raw_meta': open(mp).read()[:2000]}
    wt = tempfile.mkdtemp(prefix='seedwt_')
    os.rmdir(wt)
    res = {'seed': seed_id}
    try:
        p = sh(['git', '-C', REPO, 'worktree', 'add', '--detach', wt, 'HEAD'])
        if p.returncode:
            raise SystemExit(p.stdout)
        rc0, out0 = run_demo(demo, wt)
        res['demo_clean_exit'] = rc0
        p = sh(['git', '-C', wt, 'apply', '--whitespace=nowarn', patch])
        res['applies'] = p.returncode == 0
        if p.returncode:
            res['apply_output'] = p.stdout[-800:]
        else:
            comp = sh([PY, '-m', 'compileall', '-q', os.path.join(wt, 'src', 'xdoctest')])
            res['compiles'] = comp.returncode == 0
            rc1, out1 = run_demo(demo, wt)
            res['demo_patched_exit'] = rc1
            res['demo_patched_tail'] = out1[-600:]
            npass, nfail, names, tail = run_suite(wt)
            res['suite'] = {'passed': npass, 'failed': nfail, 'failed_names': names}
            res['suite_is_baseline'] = (npass == 298 and set(names) <= BASELINE_FAIL and nfail == 2)
            if not res['suite_is_baseline']:
                res['suite_tail'] = tail[-1200:]
            sh(['git', '-C', wt, 'checkout', '--', '.'])
        res['ok'] = bool(res.get('applies') and res.get('compiles') and rc0 == 0 and res.get('demo_patched_exit', 0) != 0
                         and res.get('suite_is_baseline'))
    finally:
        sh(['git', '-C', REPO, 'worktree', 'remove', '--force', wt])
        shutil.rmtree(wt, ignore_errors=True)
    if res['ok']:
        dst = os.path.join(SEEDED, seed_id)
        os.makedirs(dst, exist_ok=True)
        shutil.copy(patch, os.path.join(dst, 'patch.diff'))
        shutil.copy(demo, os.path.join(dst, 'demo.py'))
        out = {
            'id': seed_id,
            'property': meta.get('property', seed_id.split('-')[0]),
            'summary': meta.get('summary'),
            'needs': meta.get('needs'),
            'files': meta.get('files'),
            'written_by': 'independent sub-agent given only the property text and a scratch worktree',
            'confirmed': {
                'how': 'python -m vp.seeds confirm: fresh git worktree of /repo; demo on clean tree, git apply patch.diff, '
                       'compileall, demo on patched tree, pinned test suite (pytest -q --timeout=900 '
                       '--continue-on-collection-errors) on patched tree',
                'demo_clean_exit': res['demo_clean_exit'],
                'demo_patched_exit': res['demo_patched_exit'],
                'suite_patched': res['suite'],
                'repo_head': sh(['git', '-C', REPO, 'rev-parse', '--short', 'HEAD']).stdout.strip(),
            },
            'detection': {},
        }
        with open(os.path.join(dst, 'meta.json'), 'w') as f:
            json.dump(out, f, indent=1)
    print(json.dumps(res, indent=1))
    return 0 if res['ok'] else 1


def check(seed_id, tier, props=None):
    from vp import mutants
    d = os.path.join(SEEDED, seed_id)
    with open(os.path.join(d, 'meta.json')) as f:
        meta = json.load(f)
    props = props or [meta['property']]
    for prop in props:
        if not os.path.exists(os.path.join(HERE, 'vp', 'props', prop.lower() + '.py')):
            print('{}: no check for {} yet'.format(seed_id, prop))
            continue
        t0 = time.time()
        r = mutants.run_patch(os.path.join(d, 'patch.diff'), prop, tier)
        meta.setdefault('detection', {})['{}:{}'.format(prop, tier)] = {
            'caught': r['exit'] == 1, 'exit': r['exit'], 'seconds': round(time.time() - t0, 1),
            'keys': [k[:240] for k in r['keys'][:4]],
            'ran': './bin/check {} {} with VP_REPO=<scratch copy of /repo/src + patch.diff>'.format(prop, tier),
        }
    with open(os.path.join(d, 'meta.json'), 'w') as f:
        json.dump(meta, f, indent=1)


def main(argv):
    if not argv:
        print(__doc__)
        return 2
    if argv[0] == 'confirm':
        return confirm(argv[1], argv[2])
    if argv[0] == 'check':
        tier = argv[argv.index('--tier') + 1] if '--tier' in argv else 'quick'
        props = argv[argv.index('--props') + 1].split(',') if '--props' in argv else None
        ids = sorted(os.listdir(SEEDED)) if argv[1] == 'ALL' else [argv[1]]
        for sid in ids:
            if os.path.isdir(os.path.join(SEEDED, sid)):
                check(sid, tier, props)
        return 0
    return 2


if __name__ == '__main__':
    sys.exit(main(sys.argv[1:]))
