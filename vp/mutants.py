"""
Sensitivity testing: deliberately broken copies of xdoctest that every check
must report (DESIGN.md section 8).

    python -m vp.mutants list
    python -m vp.mutants run <mutant-id|ALL|C06> [--tier quick] [--jobs 4]
    python -m vp.mutants patch <file.diff> <ID> [--tier quick]     (a seeded change)

A mutant is a textual replacement in a *copy* of /repo/src made under a
temporary directory (removed afterwards); /repo itself is never touched.  The
check runs with VP_REPO pointing at the copy and VP_OUT at a scratch output
directory, so evidence/ and replays/ of /verif are not disturbed.  Results are
merged into sensitivity/results.json.
"""
import json
import os
import shutil
import subprocess
import sys
import tempfile
import time

HERE = os.path.dirname(os.path.dirname(os.path.abspath(__file__)))
REPO = '/repo'

# id: (property ids that must catch it, file relative to src/xdoctest, old, new, description)
MUTANTS = {}


def M(mid, props, fname, old, new, desc, count=1):
    MUTANTS[mid] = dict(id=mid, props=props, file=fname, old=old, new=new, desc=desc, count=count)


# ---- C06 -------------------------------------------------------------------
M('M3', ['C06'], 'checker.py',
  "startpos = got.find(w, startpos, endpos)", "startpos = got.find(w, startpos)",
  'ellipsis scan without end bound (last piece may overlap an earlier one)')
M('C06_guard', ['C06'], 'checker.py',
  "    if startpos > endpos:\n", "    if False:\n",
  'startpos > endpos guard removed')
M('C06_endswith', ['C06'], 'checker.py',
  "        if got.endswith(w):\n            endpos -= len(w)", "        if True:\n            endpos -= len(w)",
  'end anchor not checked')
M('C06_del0', ['C06'], 'checker.py',
  "            startpos = len(w)\n            del ws[0]", "            startpos = 0\n            del ws[0]",
  'first piece may be matched again (startpos not advanced)')
M('C06_split', ['C06'], 'checker.py',
  "ws = re.split(r'\\s*{}\\s*'.format(re.escape(ELLIPSIS_MARKER)), want,\n                  flags=re.MULTILINE)",
  "ws = want.split(ELLIPSIS_MARKER)",
  'whitespace around the ellipsis no longer consumed')
M('C06_flag', ['C06'], 'checker.py',
  "    if runstate['ELLIPSIS']:\n        if _ellipsis_match(got, want):", "    if True:\n        if _ellipsis_match(got, want):",
  'ELLIPSIS flag ignored')


def load_extra():
    """Mutants of the other properties live next to their checks."""
    try:
        from vp import mutants_table  # noqa
        mutants_table.register(M)
    except ImportError:
        pass


def make_copy(tmp):
    dst = os.path.join(tmp, 'repo')
    os.makedirs(dst)
    shutil.copytree(os.path.join(REPO, 'src'), os.path.join(dst, 'src'),
                    ignore=shutil.ignore_patterns('__pycache__', '*.pyc'))
    return dst


def apply_mutant(copy, mut):
    if isinstance(mut['file'], (list, tuple)):
        # two cooperating sites: each edit alone leaves the behaviour intact
        for f, o, n in zip(mut['file'], mut['old'], mut['new']):
            apply_mutant(copy, dict(mut, file=f, old=o, new=n, count=1))
        return
    path = os.path.join(copy, 'src', 'xdoctest', mut['file'])
    with open(path) as f:
        s = f.read()
    n = s.count(mut['old'])
    if n != mut['count']:
        raise SystemExit('mutant {}: pattern found {} times in {} (expected {})'.format(
            mut['id'], n, mut['file'], mut['count']))
    with open(path, 'w') as f:
        f.write(s.replace(mut['old'], mut['new']))
    # must still compile
    subprocess.check_call(['/venv/bin/python', '-m', 'py_compile', path])


def run_check(copy, prop, tier, out, seed='1'):
    env = dict(os.environ)
    env.update(VP_REPO=copy, VP_OUT=out, VERIF_SEED=seed)
    t0 = time.time()
    p = subprocess.run([os.path.join(HERE, 'bin', 'check'), prop, tier], env=env,
                       stdout=subprocess.PIPE, stderr=subprocess.STDOUT, text=True)
    dt = time.time() - t0
    viol = [ln for ln in p.stdout.splitlines() if ln.startswith('VIOLATION')]
    import re as _re
    keys = [ln.strip() for ln in p.stdout.splitlines() if _re.match(r'^  [A-Za-z_][\w:+.<>\-]*: ', ln)][:6]
    return dict(exit=p.returncode, seconds=round(dt, 1), violations=len(viol), keys=keys,
                tail=p.stdout[-1500:] if p.returncode not in (0, 1) else '')


def record(entries):
    d = os.path.join(HERE, 'sensitivity')
    os.makedirs(d, exist_ok=True)
    path = os.path.join(d, 'results.json')
    data = {}
    if os.path.exists(path):
        with open(path) as f:
            data = json.load(f)
    data.update(entries)
    with open(path, 'w') as f:
        json.dump(data, f, indent=1, sort_keys=True)


def run_mutant(mut, tier, only_prop=None):
    tmp = tempfile.mkdtemp(prefix='vpmut_')
    res = {}
    try:
        copy = make_copy(tmp)
        apply_mutant(copy, mut)
        for prop in mut['props']:
            if only_prop and prop != only_prop:
                continue
            out = os.path.join(tmp, 'out_' + prop)
            os.makedirs(out)
            r = run_check(copy, prop, tier, out)
            r['desc'] = mut['desc']
            r['tier'] = tier
            res['{}@{}'.format(mut['id'], prop)] = r
            print('{:<22} {:<4} {:<8} exit={} {:>6}s {}'.format(
                mut['id'], prop, tier, r['exit'], r['seconds'],
                'CAUGHT' if r['exit'] == 1 else ('MISSED' if r['exit'] == 0 else 'HARNESS-ERROR')), flush=True)
            if r['exit'] == 2:
                print(r['tail'])
    finally:
        shutil.rmtree(tmp, ignore_errors=True)
    return res


def run_patch(patchfile, prop, tier):
    tmp = tempfile.mkdtemp(prefix='vpmut_')
    try:
        copy = make_copy(tmp)
        subprocess.check_call(['patch', '-p1', '-s', '-d', copy, '-i', os.path.abspath(patchfile)])
        out = os.path.join(tmp, 'out')
        os.makedirs(out)
        r = run_check(copy, prop, tier, out)
        print('{} {} {} exit={} {}s {}'.format(patchfile, prop, tier, r['exit'], r['seconds'],
                                              'CAUGHT' if r['exit'] == 1 else ('MISSED' if r['exit'] == 0 else 'HARNESS-ERROR')))
        for k in r['keys']:
            print('   ', k[:300])
        if r['exit'] == 2:
            print(r['tail'])
        return r
    finally:
        shutil.rmtree(tmp, ignore_errors=True)


def main(argv):
    load_extra()
    if not argv or argv[0] == 'list':
        for mid, m in sorted(MUTANTS.items()):
            print('{:<22} {:<12} {}'.format(mid, ','.join(m['props']), m['desc']))
        return 0
    tier = 'quick'
    if '--tier' in argv:
        tier = argv[argv.index('--tier') + 1]
    njobs = 2
    if '--jobs' in argv:
        njobs = int(argv[argv.index('--jobs') + 1])
    if argv[0] == 'patch':
        r = run_patch(argv[1], argv[2], tier)
        return 0 if r['exit'] == 1 else 1
    if argv[0] == 'run':
        sel = argv[1]
        only_prop = None
        if sel == 'ALL':
            muts = list(MUTANTS.values())
        elif sel in MUTANTS:
            muts = [MUTANTS[sel]]
        else:
            muts = [m for m in MUTANTS.values() if sel in m['props']]
            only_prop = sel
        if not muts:
            print('no such mutant / property', sel)
            return 2
        from concurrent.futures import ThreadPoolExecutor
        allres = {}
        with ThreadPoolExecutor(njobs) as ex:
            for res in ex.map(lambda m: run_mutant(m, tier, only_prop), muts):
                allres.update(res)
        record(allres)
        missed = [k for k, r in allres.items() if r['exit'] != 1]
        print('{} mutant runs, {} not caught: {}'.format(len(allres), len(missed), missed))
        return 0 if not missed else 1
    return 2


if __name__ == '__main__':
    sys.exit(main(sys.argv[1:]))
