"""
Reference execution by CPython itself: the de-prompted program is compiled and
run as an ordinary Python program, statement group by statement group, in one
namespace.  Nothing here imports xdoctest.
"""
import ast
import asyncio
import contextlib
import io
import sys
import traceback
from inspect import CO_COROUTINE

FLAGS = ast.PyCF_ALLOW_TOP_LEVEL_AWAIT
NOVALUE = '<no value>'


def _run_code(code, ns):
    if code.co_flags & CO_COROUTINE:
        return asyncio.run(eval(code, ns))
    return eval(code, ns)


def exec_unit(src, ns, filename='<ref>', stream=None):
    """
    Run one unit (one or more top-level statements).  Returns
    (stdout, value, is_expr, exc) where value is the value of the final
    statement when it is an expression statement (else NOVALUE) and exc is the
    exception instance if one was raised (stdout then holds what was written
    before it).  With ``stream`` (one StringIO shared by all units of a
    program) sys.stdout is the same object for the whole program, as it is
    for an ordinary Python program, and the text returned is what was written
    to it during this unit - also through a reference kept by an earlier unit.
    """
    tree = ast.parse(src, filename=filename)
    body = list(tree.body)
    is_expr = bool(body) and isinstance(body[-1], ast.Expr)
    value = NOVALUE
    buf = stream if stream is not None else io.StringIO()
    start = len(buf.getvalue())
    exc = None
    with contextlib.redirect_stdout(buf):
        try:
            if is_expr:
                last = body.pop()
            if body:
                mod = ast.Module(body=body, type_ignores=[])
                code = compile(mod, filename, 'exec', flags=FLAGS, dont_inherit=True)
                _run_code(code, ns)
            if is_expr:
                expr = ast.Expression(body=last.value)
                ast.copy_location(expr, last)
                code = compile(expr, filename, 'eval', flags=FLAGS, dont_inherit=True)
                value = _run_code(code, ns)
        except Exception as ex:  # noqa
            exc = ex
    return buf.getvalue()[start:], value, is_expr, exc


def run_units(units, ns=None):
    """units: list of source strings.  Returns (results, ns)."""
    if ns is None:
        ns = {}
    ns.setdefault('T', [])
    out = []
    for src in units:
        out.append(exec_unit(src, ns))
        if out[-1][3] is not None:
            break
    return out, ns


def run_program(source, ns=None, filename='<ref>'):
    """
    Whole program at once.  Returns dict(stdout, trace, ns, exc, tb_lines)
    where tb_lines are the line numbers of the frames whose filename is
    ``filename``, outermost first.
    """
    if ns is None:
        ns = {}
    ns.setdefault('T', [])
    buf = io.StringIO()
    exc = None
    tb_lines = []
    with contextlib.redirect_stdout(buf):
        try:
            code = compile(source, filename, 'exec', flags=FLAGS, dont_inherit=True)
            _run_code(code, ns)
        except Exception as ex:  # noqa
            exc = ex
            if isinstance(ex, SyntaxError) and ex.filename == filename and ex.__traceback__ is not None:
                tb_lines = [fr.lineno for fr in traceback.extract_tb(ex.__traceback__) if fr.filename == filename]
                if not tb_lines:
                    tb_lines = [ex.lineno]
            else:
                tb_lines = [fr.lineno for fr in traceback.extract_tb(ex.__traceback__) if fr.filename == filename]
    return {'stdout': buf.getvalue(), 'trace': list(ns.get('T', [])), 'ns': ns, 'exc': exc, 'tb_lines': tb_lines}


PLAIN = (int, float, str, bytes, bool, type(None))


def simple(v, depth=0):
    """Comparable rendering of a binding: repr for plain data, type name otherwise."""
    if isinstance(v, PLAIN):
        return repr(v)
    if depth < 4:
        if isinstance(v, (list, tuple)):
            return type(v).__name__ + '(' + ', '.join(simple(x, depth + 1) for x in v) + ')'
        if isinstance(v, dict):
            return 'dict(' + ', '.join('{}: {}'.format(simple(k, depth + 1), simple(x, depth + 1))
                                       for k, x in v.items()) + ')'
    return '<' + type(v).__name__ + '>'


def bindings(ns, skip=('T',)):
    return {k: simple(v) for k, v in ns.items() if not k.startswith('__') and k not in skip}
