"""
Reference definition of the ELLIPSIS wildcard (property C06), written from the
statement and independent of xdoctest's greedy scan:

    a want containing '...' matches a got exactly when the got can be written as
    the want's literal pieces in order, the first anchored at the start and the
    last at the end unless the want begins or ends with '...', with arbitrary
    (possibly empty, possibly multi-line) text in place of each '...' and of
    the whitespace around it; pieces never overlap.

The definition is executed by a backtracking matcher: ``re.fullmatch`` of
``escape(p0) .* escape(p1) .* ... escape(pk)`` with DOTALL.

A run of four or more dots can be read as wildcard + literal dots in more than
one way and the statement does not say which reading applies; ``cuts`` returns
every reading and ``verdicts`` the set of their answers.  A check accepts the
implementation's answer iff it is in that set (a singleton for every want whose
dot runs have length 3, i.e. for all ordinary wants).
"""
import re
from functools import lru_cache

WILD = None  # token standing for a wildcard


def _run_cuts(L):
    """All ways to read a run of L >= 3 dots: lists of literal-dot counts
    [a0, a1, ..., ak] (each 0..2) separated by k >= 1 wildcards, with
    sum(a) + 3k == L, such that no literal piece contains three dots."""
    out = []

    def rec(rem, acc):
        # acc ends with a literal count; next must be a wildcard or the end
        if rem == 0:
            if len(acc) >= 2:
                out.append(list(acc))
            return
        if rem < 3:
            return
        for a in (0, 1, 2):
            if rem - 3 - a >= 0:
                rec(rem - 3 - a, acc + [a])

    for a0 in (0, 1, 2):
        if L - a0 >= 3:
            rec(L - a0, [a0])
    # remove readings whose tail cannot be completed (rec only appends complete ones)
    return out


@lru_cache(maxsize=None)
def run_cuts(L):
    return tuple(tuple(c) for c in _run_cuts(L))


def cuts(want):
    """Every tokenisation of ``want`` into literal strings and WILD tokens."""
    # split into dot runs and other text
    chunks = re.findall(r'\.+|[^.]+', want, flags=re.DOTALL)
    readings = [[]]
    for ch in chunks:
        if ch[0] == '.' and len(ch) >= 3:
            new = []
            for rc in run_cuts(len(ch)):
                toks = []
                for i, a in enumerate(rc):
                    if i > 0:
                        toks.append(WILD)
                    if a:
                        toks.append('.' * a)
                for r in readings:
                    new.append(r + toks)
            readings = new
        else:
            for r in readings:
                r.append(ch)
    out = []
    for r in readings:
        # merge adjacent literals
        merged = []
        for t in r:
            if t is not WILD and merged and merged[-1] is not WILD:
                merged[-1] = merged[-1] + t
            else:
                merged.append(t)
        out.append(merged)
    return out


def _regex_for(tokens):
    """Literal pieces with the whitespace adjacent to a wildcard removed."""
    n = len(tokens)
    parts = []
    for i, t in enumerate(tokens):
        if t is WILD:
            parts.append('.*')
        else:
            lit = t
            if i + 1 < n and tokens[i + 1] is WILD:
                lit = lit.rstrip()   # whitespace before the wildcard is replaced too
            if i > 0 and tokens[i - 1] is WILD:
                lit = lit.lstrip()
            parts.append(re.escape(lit))
    return re.compile(''.join(parts), re.DOTALL)


@lru_cache(maxsize=4096)
def compiled(want):
    return tuple(_regex_for(toks) for toks in cuts(want))


def verdicts(got, want):
    """Set of answers of the definition over all readings of the want."""
    if '...' not in want:
        return {got == want}
    return {rx.fullmatch(got) is not None for rx in compiled(want)}


def pieces(want):
    """Non-empty literal pieces of the leftmost reading (for classification)."""
    return [p for p in re.split(r'\s*\.\.\.\s*', want) if p]


def selftest():
    assert verdicts('aaa', 'aa...aa') == {False}
    assert verdicts('aaaa', 'aa...aa') == {True}
    assert verdicts('anything', '...') == {True}
    assert verdicts('suffix-anything', 'prefix-...') == {False}
    assert verdicts('foo', '... foo') == {True}
    assert verdicts('a\nb\nc', 'a ... c') == {True}
    assert verdicts('ab', 'a...b...') == {True}
    assert verdicts('aXbXa', 'a...a...a') == {False}
    assert verdicts('abc', 'abc') == {True}
    assert verdicts('a...', 'a..') == {False}
    assert verdicts('a.b', 'a....') == {True, False}
    assert len(cuts('a......b')) == 3
    assert verdicts('ba', 'a...') == {False}
