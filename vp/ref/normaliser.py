"""
Reference for property C05: the documented got/want relation, written from the
statement (not from checker.py):

  identical texts always match; otherwise both are compared after removing
  ANSI colour codes, string-prefix letters, trailing whitespace and (unless
  disabled) <BLANKLINE> markers, after collapsing whitespace runs when
  NORMALIZE_WHITESPACE is on, after deleting all whitespace when
  IGNORE_WHITESPACE is on, with '...' acting as a wildcard only when ELLIPSIS is
  on and surrounding quotes ignorable only when NORMALIZE_REPR is on.

``ref_all(got, want)`` returns the verdict for each of the 32 flag settings:
True, False, or None where the statement admits more than one reading (the
ambiguity classes listed in DESIGN.md 6.5; nothing is asserted there):

  (a) a prefix letter that directly follows a just-stripped prefix construct
      (``u'u'``): "remove prefix letters" applied once or to a fixed point;
  (b) a <BLANKLINE> marker that is not alone on its line, or occurs in the got;
  (c) runs of >= 4 dots under ELLIPSIS (see vp/ref/ellipsis.py);
  (d) the empty want (a part with an empty want has no want);
  (e) both texts quoted: whether the quotes of both may be ignored at once
      (e.g. 'a' against "a") - only asserted when both readings agree.

Flag index bits: ELLIPSIS=1, NORMALIZE_WHITESPACE=2, IGNORE_WHITESPACE=4,
NORMALIZE_REPR=8, DONT_ACCEPT_BLANKLINE=16.
"""
import re

from vp.ref import ellipsis as ell

FLAGS = ['ELLIPSIS', 'NORMALIZE_WHITESPACE', 'IGNORE_WHITESPACE', 'NORMALIZE_REPR', 'DONT_ACCEPT_BLANKLINE']
E, NW, IW, NR, DAB = 1, 2, 4, 8, 16
MARK = '<BLANKLINE>'

# ECMA-48 control sequence: CSI, parameter bytes, intermediate bytes, final byte
ANSI = re.compile(r'\x1b\[[\x30-\x3f]*[\x20-\x2f]*[\x40-\x7e]')
# a prefix letter u/U/b/B that starts the text or follows a non-word character and
# precedes an optional r/R and a quote
PFX_LOOK = re.compile(r'''(?<![A-Za-z0-9_])[uUbB](?=[rR]?['"])''')
PFX_CONS_U = re.compile(r'''(\W|^)[uU]([rR]?['"])''')
PFX_CONS_B = re.compile(r'''(\W|^)[bB]([rR]?['"])''')


def flags_of(idx):
    return {name: bool(idx & (1 << i)) for i, name in enumerate(FLAGS)}


def strip_prefix_readings(text):
    a = PFX_LOOK.sub('', text)
    b = PFX_CONS_B.sub(r'\1\2', PFX_CONS_U.sub(r'\1\2', text))
    return a, b


def blank(want):
    """want lines consisting of the marker become empty lines"""
    return '\n'.join('' if ln == MARK else ln for ln in want.split('\n'))


def marker_not_alone(want):
    return any(MARK in ln and ln != MARK for ln in want.split('\n'))


def strip_trailing(text):
    return '\n'.join(ln.rstrip(' \t') for ln in text.split('\n')).rstrip()


def unquote(s):
    if len(s) >= 2 and s[0] == s[-1] and s[0] in '"\'':
        return s[1:-1]
    return None


def _m(g, w, e):
    """set of possible verdicts of the basic match"""
    if g == w:
        return {True}
    if e and '...' in w:
        return ell.verdicts(g, w)
    return {False}


def _or(sets):
    can_true = any(True in s for s in sets)
    can_false = all(False in s for s in sets)
    out = set()
    if can_true:
        out.add(True)
    if can_false:
        out.add(False)
    return out


def _verdicts_for_texts(g0, w0):
    """32 verdict sets for texts whose ANSI codes and prefixes are already removed."""
    res = [None] * 32
    for dab in (0, 1):
        w1 = w0 if dab else blank(w0)
        g2, w2 = strip_trailing(g0), strip_trailing(w1)
        for wsmode in (0, NW, IW, NW | IW):
            if wsmode == 0:
                g3, w3 = g2, w2
            else:
                g3, w3 = ' '.join(g2.split()), ' '.join(w2.split())
                if wsmode & IW:
                    g3, w3 = re.sub(r'\s', '', g3), re.sub(r'\s', '', w3)
            ug, uw = unquote(g3), unquote(w3)
            if wsmode:
                # whitespace just inside the quotes is insignificant too (monotonicity law)
                ug = None if ug is None else ' '.join(ug.split())
                uw = None if uw is None else ' '.join(uw.split())
            for e in (0, E):
                base = _m(g3, w3, e)
                for nr in (0, NR):
                    idx = e | wsmode | nr | (DAB if dab else 0)
                    if not nr:
                        res[idx] = base
                        continue
                    alts = [base]
                    if ug is not None:
                        alts.append(_m(ug, w3, e))
                    if uw is not None:
                        alts.append(_m(g3, uw, e))
                    one_side = _or(alts)
                    if ug is not None and uw is not None:
                        # class (e): both sides quoted (possibly with different quote
                        # characters): whether both may be unquoted at once is left open
                        both = _or(alts + [_m(ug, uw, e)])
                        res[idx] = one_side | both
                    else:
                        res[idx] = one_side
    return res


def ref_all(got, want):
    """list of 32 entries: True / False / None (ambiguous or unspecified)"""
    if not want:
        return [None] * 32                       # class (d)
    if got == want:
        return [True] * 32
    g, w = ANSI.sub('', got), ANSI.sub('', want)
    ga, gb = strip_prefix_readings(g)
    wa, wb = strip_prefix_readings(w)
    readings = [_verdicts_for_texts(ga, wa)]
    if (ga, wa) != (gb, wb):
        readings.append(_verdicts_for_texts(gb, wb))   # class (a)
    amb_marker = (MARK in got) or marker_not_alone(w)
    out = []
    for idx in range(32):
        s = set()
        for r in readings:
            s |= r[idx]
        if len(s) != 1:
            out.append(None)
        elif amb_marker and not (idx & DAB):
            out.append(None)                       # class (b)
        else:
            out.append(next(iter(s)))
    return out


def selftest():
    r = ref_all('a  b', 'a b')
    assert r[0] is False and r[NW] is True and r[IW] is True
    r = ref_all('a\n\nb', 'a\n<BLANKLINE>\nb')
    assert r[0] is True and r[DAB] is False
    r = ref_all("'x'", 'x')
    assert r[NR] is True and r[0] is False
    r = ref_all("'", ' ')
    assert r[NR] is False, 'a lone quote is not a quoted string (F8)'
    r = ref_all("u'a'", "'a'")
    assert all(v is True for v in r)
    r = ref_all('\x1b[31ma\x1b[0m', 'a')
    assert all(v is True for v in r)
    r = ref_all('a\t', 'a')
    assert all(v is True for v in r), 'tabs are trailing whitespace (K2)'
    r = ref_all("au'", "a'")
    assert r[0] is False, 'a prefix letter inside a word is not a prefix (K3)'
    r = ref_all('abc', 'a...')
    assert r[E] is True and r[0] is False
    r = ref_all('a b', 'ab')
    assert r[IW] is True and r[NW] is False
