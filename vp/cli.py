"""
./bin/check <ID> <quick|thorough> [--replay FILE]

exit 0  the property held on everything explored (KNOWN-FINDING lines possible)
exit 1  ``VIOLATION property=<ID> replay=<path>`` printed for every unknown root cause
exit 2  harness error (never a verdict about the code under test)
"""
import importlib
import json
import os
import re
import sys
import time
import traceback

from vp import engine
from vp.engine import HERE, Ctx, HarnessError, Violation

MAX_ROUNDS = {'quick': 2, 'thorough': 3}
# evidence/ and replays/ go to /verif unless a sensitivity run redirects them
OUT = os.environ.get('VP_OUT') or HERE


def load_known(prop_id):
    path = os.path.join(HERE, 'known_findings.json')
    with open(path) as f:
        data = json.load(f)
    known, fixed = [], []
    for ent in data.get('findings', []):
        if ent.get('property') != prop_id:
            continue
        (known if ent.get('status') == 'known' else fixed).append(ent)
    return known, fixed


def slug(text):
    return re.sub(r'[^A-Za-z0-9_.-]+', '_', text)[:80].strip('_') or 'case'


def write_replay(prop_id, failure, tier, seed):
    d = os.path.join(OUT, 'replays', prop_id)
    os.makedirs(d, exist_ok=True)
    path = os.path.join(d, slug(failure['key']) + '.json')
    with open(path, 'w') as f:
        json.dump({'property': prop_id, 'key': failure['key'], 'message': failure['msg'],
                   'detail': failure.get('detail'), 'tier': tier, 'seed': seed,
                   'case': failure['case']}, f, indent=1, sort_keys=True, default=repr)
    return os.path.relpath(path, OUT) if OUT == HERE else path


def write_evidence(mod, tier, seed, tot, wall, n_viol, known_printed, extra=None):
    n_distinct = len(tot['nontrivial']) + tot['nontrivial_extra']
    cov = {
        'evaluations': int(tot['evaluations']),
        'distinct_nontrivial': int(n_distinct),
        'rule': mod.RULE,
        'samples': tot['samples'] or ['(no case recorded)'],
        'class_histogram': dict(sorted(tot['classes'].items())),
        'per_job': tot['per_job'],
        'suppressed_known_or_excluded': dict(tot['suppressed_hits']),
        'notes': dict(tot['notes']),
        'exhaustive_subdomains': tot['exhaustive'],
        'exhaustive': bool(tot['exhaustive']) and getattr(mod, 'ALL_EXHAUSTIVE', False),
        'known_findings_printed': known_printed,
        'technique': getattr(mod, 'TECHNIQUE', ''),
        'repo': engine.REPO,
    }
    if extra:
        cov.update(extra)
    ev = {
        'property_id': mod.ID,
        'tier': tier,
        'seed': int(seed),
        'level': 'exploration',
        'coverage': cov,
        'assumptions': list(getattr(mod, 'ASSUMPTIONS', [])),
        'wall_s': round(wall, 2),
        'violations': int(n_viol),
    }
    os.makedirs(os.path.join(OUT, 'evidence'), exist_ok=True)
    path = os.path.join(OUT, 'evidence', mod.ID + '.json')
    tmp = path + '.tmp'
    with open(tmp, 'w') as f:
        json.dump(ev, f, indent=1, sort_keys=True, default=repr)
    os.replace(tmp, path)


def run_corpus(mod, ctx):
    """Saved regression inputs are replayed first, without Hypothesis."""
    d = os.path.join(HERE, 'corpus', mod.ID)
    n = 0
    if os.path.isdir(d):
        for fn in sorted(os.listdir(d)):
            if not fn.endswith('.json'):
                continue
            with open(os.path.join(d, fn)) as f:
                data = json.load(f)
            case = data['case'] if isinstance(data, dict) and 'case' in data else data
            ctx.count()
            ctx.tag('corpus')
            ctx.guard(mod.check_case, case)
            n += 1
    return n


def main(argv=None):
    argv = list(sys.argv[1:] if argv is None else argv)
    if len(argv) < 2:
        print(__doc__)
        return 2
    prop_id, tier = argv[0], argv[1]
    replay = None
    if '--replay' in argv:
        replay = argv[argv.index('--replay') + 1]
    if tier not in ('quick', 'thorough'):
        print('unknown tier', tier)
        return 2
    seed = int(os.environ.get('VERIF_SEED', '1') or 1)
    t0 = time.time()
    try:
        mod = importlib.import_module('vp.props.' + prop_id.lower())
    except Exception:
        traceback.print_exc()
        print('HARNESS-ERROR property={} cannot import the check'.format(prop_id))
        return 2

    if replay is not None:
        return do_replay(mod, replay)

    try:
        import xdoctest
        src = os.path.realpath(os.path.dirname(xdoctest.__file__))
        want = os.path.realpath(os.path.join(engine.REPO, 'src', 'xdoctest'))
        if src != want:
            raise HarnessError('xdoctest imported from {} not {}'.format(src, want))
        mod.selftest()
    except Exception:
        traceback.print_exc()
        print('HARNESS-ERROR property={} self-test failed'.format(prop_id))
        return 2

    known, fixed = load_known(mod.ID)
    suppressed = [k['key'] for k in known]
    known_by_key = {k['key']: k for k in known}

    all_failures = []
    tot = None
    try:
        # corpus first (seconds)
        cctx = Ctx(mod.ID, tier, seed, jobname='corpus', suppressed=suppressed)
        run_corpus(mod, cctx)
        results = [('ok', cctx.export())]
        excluded = list(suppressed)
        for rnd in range(MAX_ROUNDS[tier]):
            res = engine.run_jobs(mod, tier, seed, excluded)
            results.extend(res)
            tot = engine.merge(results)
            if tot['errors']:
                break
            new = {}
            for f in tot['failures']:
                if f['key'] not in new and f['key'] not in [x['key'] for x in all_failures]:
                    new[f['key']] = f
            fresh = [f for k, f in new.items()]
            all_failures.extend(fresh)
            if not fresh or rnd == MAX_ROUNDS[tier] - 1:
                break
            # next round: exclude what we already have so the search goes on
            excluded = excluded + [f['key'] for f in all_failures]
            results = [r for r in results]  # keep counts of all rounds
        tot = engine.merge(results)
    except Exception:
        traceback.print_exc()
        print('HARNESS-ERROR property={} driver failed'.format(prop_id))
        return 2

    only_flaky = tot['errors'] and all('HarnessError: flaky' in e['trace'] for e in tot['errors'])
    if only_flaky and all_failures:
        # Hypothesis gave up in some workers because the code under test did not behave the same way twice (state that
        # outlives a case); other workers did pin a violation down, with a replay file: that is the verdict
        for e in tot['errors']:
            print('note: job {}: hypothesis reported inconsistent behaviour between two executions of one case'.format(e['jobname']))
    elif tot['errors']:
        for e in tot['errors']:
            print('--- worker error in job {} ---'.format(e['jobname']))
            print(e['trace'])
        print('HARNESS-ERROR property={} {} worker(s) failed'.format(prop_id, len(tot['errors'])))
        return 2

    # known findings that were hit on this run
    from fnmatch import fnmatchcase
    known_printed = []
    for pat, ent in known_by_key.items():
        hits = sum(n for k, n in tot['suppressed_hits'].items() if fnmatchcase(k, pat))
        if hits:
            print('KNOWN-FINDING: property={} {} [{} case(s) this run, key={}]'.format(
                mod.ID, ent['what'], hits, pat))
            known_printed.append(ent.get('id', pat))

    wall = time.time() - t0
    uniq = {}
    for f in all_failures:
        uniq.setdefault(f['key'], f)
    health = None
    if not uniq and hasattr(mod, 'health'):
        health = mod.health(tot, tier)
    write_evidence(mod, tier, seed, tot, wall, len(uniq), known_printed)
    for key, f in uniq.items():
        path = write_replay(mod.ID, f, tier, seed)
        print('  {}: {}'.format(key, f['msg'][:600]))
        print('VIOLATION property={} replay={}'.format(mod.ID, path))
    if uniq:
        return 1
    if health:
        print('HARNESS-ERROR property={} generator health: {}'.format(prop_id, health))
        return 2
    n_distinct = len(tot['nontrivial']) + tot['nontrivial_extra']
    print('OK property={} tier={} seed={} evaluations={} distinct_nontrivial={} wall={:.1f}s'.format(
        mod.ID, tier, seed, tot['evaluations'], n_distinct, wall))
    return 0


def do_replay(mod, path):
    with open(path) as f:
        data = json.load(f)
    case = data['case'] if isinstance(data, dict) and 'case' in data else data
    known, _fixed = load_known(mod.ID)
    ctx = Ctx(mod.ID, 'quick', 0, jobname='replay', suppressed=[k['key'] for k in known])
    try:
        mod.check_case(case, ctx)
    except Violation as v:
        if ctx.is_suppressed(v.key):
            ent = [k for k in known if __import__('fnmatch').fnmatchcase(v.key, k['key'])][0]
            print('KNOWN-FINDING: property={} {} [key={}]'.format(mod.ID, ent['what'], v.key))
            print('REPLAY-OK property={} {} (only a known finding)'.format(mod.ID, path))
            return 0
        print('  {}: {}'.format(v.key, v.msg))
        if v.detail:
            print(v.detail)
        print('VIOLATION property={} replay={}'.format(mod.ID, path))
        return 1
    except Exception as ex:  # noqa
        v = engine.classify_crash(ex)
        if v is None:
            traceback.print_exc()
            return 2
        print('  {}: {}'.format(v.key, v.msg))
        print(v.detail)
        print('VIOLATION property={} replay={}'.format(mod.ID, path))
        return 1
    for key, n in ctx.suppressed_hits.items():
        print('KNOWN-FINDING: property={} key={} [{} hit(s) in this case]'.format(mod.ID, key, n))
    print('REPLAY-OK property={} {}'.format(mod.ID, path))
    return 0


if __name__ == '__main__':
    sys.exit(main())
