"""
C06 — Ellipsis is a true wildcard.

Decided by (1) exhaustive enumeration of every (got, want) pair over the
alphabet {a, b, space, newline, '.'} up to a length bound, comparing
``checker._ellipsis_match`` (and ``check_output`` under +/-ELLIPSIS with the
other leniencies off) with the backtracking reference of vp/ref/ellipsis.py;
(2) Hypothesis-generated longer pairs derived from each other by replacing
substrings with '...' and by mutating one literal character.
"""
import contextlib
import io
import itertools
import re
import warnings

from hypothesis import strategies as st

from vp import engine
from vp.engine import HarnessError, Violation
from vp.ref import ellipsis as ref

ID = 'C06'
TECHNIQUE = ('exhaustive enumeration of small (got, want) pairs + Hypothesis derived pairs, '
             'differential against a backtracking regex definition of the wildcard')
RULE = ("pairs (got, want): every got over {a,b,space,newline,'.'} up to length n x every want up to "
        "length m containing '...' (enumerated, distinct by construction), plus Hypothesis pairs derived by "
        "replacing substrings with '...'. Non-trivial: the want has >= 2 non-empty literal pieces, or one "
        "of its pieces occurs more than once in the got (overlap / leftmost-choice cases).")
ASSUMPTIONS = [
    "re.fullmatch with DOTALL is a correct backtracking matcher (CPython re)",
    "a run of >= 4 dots may be read in several ways; the implementation must agree with at least one reading "
    "(counted as class 'ambiguous_dot_run')",
    "check_output with every leniency off compares up to trailing whitespace per line and at the end "
    "(the C05 statement); alphabets for check_output contain no quote, '<', ESC or carriage return",
]
ALPHA = 'ab \n.'

BOUNDS = {
    # tier: (got max len, want max len) for _ellipsis_match; (n, m) for check_output
    'quick': ((5, 6), (4, 5)),
    'thorough': ((6, 8), (5, 6)),
}


def _strings(alpha, maxlen):
    for n in range(maxlen + 1):
        for tup in itertools.product(alpha, repeat=n):
            yield ''.join(tup)


def _xd():
    from xdoctest import checker, directive
    return checker, directive


def _state(ellipsis_on):
    checker, directive = _xd()
    return directive.RuntimeState({
        'ELLIPSIS': bool(ellipsis_on), 'NORMALIZE_WHITESPACE': False, 'IGNORE_WHITESPACE': False,
        'NORMALIZE_REPR': False, 'DONT_ACCEPT_BLANKLINE': True,
    })


_TRAIL = re.compile(r'[ \t]*$', re.MULTILINE)


def _norm(text):
    return _TRAIL.sub('', text).rstrip()


def selftest():
    ref.selftest()
    checker, directive = _xd()
    # the implementation and the reference are different functions
    assert checker._ellipsis_match.__module__ == 'xdoctest.checker'
    # a deliberately wrong matcher (no end bound: mutant M3) is told apart by the reference
    got, want = 'abab', 'ab...ab...b'
    assert ref.verdicts(got, want) == {False}
    assert ref.verdicts('a b', 'a...b') == {True}


# ---------------------------------------------------------------------------
# the property on one case


def check_case(case, ctx):
    """case = {'got':…, 'want':…, 'via': 'ellipsis_match' | 'check_output'}"""
    if case.get('via') == 'doctest':
        return check_doctest_case(case, ctx)
    checker, directive = _xd()
    got, want = case['got'], case['want']
    via = case.get('via', 'ellipsis_match')
    if via == 'ellipsis_match':
        exp = ref.verdicts(got, want)
        act = bool(checker._ellipsis_match(got, want))
        if act not in exp:
            raise Violation('ellipsis_match:' + ('false_match' if act else 'false_mismatch'),
                            '_ellipsis_match({!r}, {!r}) = {} but the definition says {}'.format(
                                got, want, act, sorted(exp)))
    else:
        if not want:
            return
        ng, nw = _norm(got), _norm(want)
        exp_on = {True} if got == want else ref.verdicts(ng, nw)
        exp_off = {got == want or ng == nw}
        act_on = bool(checker.check_output(got, want, _state(True)))
        act_off = bool(checker.check_output(got, want, _state(False)))
        # the flag may also be switched on an existing state by item assignment
        s_on = _state(False)
        s_on['ELLIPSIS'] = True
        s_off = _state(True)
        s_off['ELLIPSIS'] = False
        if bool(checker.check_output(got, want, s_on)) != act_on or bool(checker.check_output(got, want, s_off)) != act_off:
            raise Violation('check_output:flag_set_by_assignment',
                            "check_output({!r}, {!r}) differs between a state constructed with ELLIPSIS on/off ({}, {}) and one "
                            "where the flag was assigned afterwards".format(got, want, act_on, act_off))
        if act_on not in exp_on:
            raise Violation('check_output:+ELLIPSIS:' + ('false_match' if act_on else 'false_mismatch'),
                            'check_output({!r}, {!r}) with ELLIPSIS on = {} but the definition says {}'.format(
                                got, want, act_on, sorted(exp_on)))
        if act_off not in exp_off:
            raise Violation('check_output:-ELLIPSIS:' + ('false_match' if act_off else 'false_mismatch'),
                            "check_output({!r}, {!r}) with ELLIPSIS off = {} but '...' has no special meaning "
                            "then: expected {}".format(got, want, act_off, sorted(exp_off)))


# ---------------------------------------------------------------------------
# exhaustive part


def enum_pairs(ctx, shard, nshards, n, m, via):
    checker, directive = _xd()
    gots = list(_strings(ALPHA, n))
    wants = [w for w in _strings(ALPHA, m) if '...' in w]
    if via == 'check_output':
        # equality side too: a sample of wants without '...'
        wants = wants + [w for w in _strings(ALPHA, min(m, 3)) if w and '...' not in w]
    mine = wants[shard::nshards]
    ematch = checker._ellipsis_match
    nontriv = 0
    amb = 0
    n_true = 0
    first_sample = None
    if via == 'ellipsis_match':
        for want in mine:
            rxs = ref.compiled(want)
            is_nt = len(ref.pieces(want)) >= 2
            if len(rxs) > 1:
                amb += len(gots)
            for got in gots:
                act = bool(ematch(got, want))
                if len(rxs) == 1:
                    ok = (rxs[0].fullmatch(got) is not None) == act
                else:
                    ok = act in {rx.fullmatch(got) is not None for rx in rxs}
                if act:
                    n_true += 1
                if not ok:
                    ctx.guard(check_case, {'got': got, 'want': want, 'via': via})
            if is_nt:
                nontriv += len(gots)
                if first_sample is None:
                    first_sample = {'want': want, 'gots': '{} strings up to length {}'.format(len(gots), n),
                                    'example_got': gots[len(gots) // 2], 'via': via}
    else:
        st_on, st_off = _state(True), _state(False)
        co = checker.check_output
        for want in mine:
            if not want:
                continue
            is_nt = len(ref.pieces(want)) >= 2
            nw = _norm(want)
            for got in gots:
                ng = _norm(got)
                a_on = bool(co(got, want, st_on))
                a_off = bool(co(got, want, st_off))
                e_off = (got == want) or (ng == nw)
                if got == want:
                    e_on = {True}
                else:
                    e_on = ref.verdicts(ng, nw)
                if a_on:
                    n_true += 1
                if a_on not in e_on or a_off != e_off:
                    ctx.guard(check_case, {'got': got, 'want': want, 'via': via})
            if is_nt:
                nontriv += len(gots)
                if first_sample is None:
                    first_sample = {'want': want, 'example_got': gots[len(gots) // 3], 'via': via}
    ctx.count(len(mine) * len(gots))
    ctx.nontriv_bulk(nontriv, first_sample)
    ctx.classes['enum:' + via + ':pairs'] += len(mine) * len(gots)
    ctx.classes['enum:' + via + ':matching'] += n_true
    ctx.classes['enum:' + via + ':ambiguous_dot_run'] += amb
    if shard == 0:
        ctx.exhaustive.append("{}: all {} gots (len<={}) x all {} wants (len<={}, containing '...') over {!r}".format(
            via, len(gots), n, len(wants), m, ALPHA))


# ---------------------------------------------------------------------------
# Hypothesis part: longer derived pairs

WIDE = 'abxy01 \n\t.,:;()[]*+?\\^$|-_=/é\x0b\x0c\xa0\r'
SAFE = 'abxy01 \n\t.,:;()[]*+?\\^$|-_=/'


@st.composite
def derived_pair(draw, alphabet):
    got = draw(st.text(alphabet=alphabet, min_size=0, max_size=60))
    n = len(got)
    k = draw(st.integers(1, 4))
    cuts_ = sorted(draw(st.lists(st.integers(0, n), min_size=2 * k, max_size=2 * k)))
    want = []
    pos = 0
    for i in range(k):
        a, b = cuts_[2 * i], cuts_[2 * i + 1]
        want.append(got[pos:a])
        want.append(draw(st.sampled_from(['...', ' ...', '... ', ' ... ', '\n...\n', '...'])))
        pos = b
    want.append(got[pos:])
    want = ''.join(want)
    mode = draw(st.sampled_from(['keep', 'keep', 'mutate', 'delete', 'insert', 'swapgot']))
    if mode == 'mutate' and want:
        i = draw(st.integers(0, len(want) - 1))
        want = want[:i] + draw(st.sampled_from(list(alphabet))) + want[i + 1:]
    elif mode == 'delete' and want:
        i = draw(st.integers(0, len(want) - 1))
        want = want[:i] + want[i + 1:]
    elif mode == 'insert':
        i = draw(st.integers(0, len(want)))
        want = want[:i] + draw(st.sampled_from(list(alphabet))) + want[i:]
    elif mode == 'swapgot' and got:
        i = draw(st.integers(0, len(got) - 1))
        got = got[:i] + draw(st.sampled_from(list(alphabet))) + got[i + 1:]
    return got, want, mode


def _check_derived(case, ctx):
    ctx.count()
    got, want = case['got'], case['want']
    ps = ref.pieces(want)
    exp = ref.verdicts(got, want) if case['via'] == 'ellipsis_match' else None
    repeated = any(got.count(p) > 1 for p in ps)
    ctx.tag('hyp:' + case['via'], 'hyp:mode:' + case.get('mode', '?'))
    if exp is not None:
        ctx.tag('hyp:expected_' + ('ambiguous' if len(exp) > 1 else str(next(iter(exp)))))
    if '...' in want and (len(ps) >= 2 or repeated):
        ctx.nontriv((got, want, case['via']), {'got': got, 'want': want, 'via': case['via']})
    check_case(case, ctx)


# ---------------------------------------------------------------------------
# end to end: the same relation must hold when the texts go through a doctest run, in every way a statement
# can produce its output (printed, echoed value, printed then echoed value), with ELLIPSIS switched by a directive

E2E_WORDS = ['a', 'b', 'ab', 'a.b', 'b b', 'a  b', 'ba..', 'x']
DOC_HEAD = ['>>> # xdoctest: -NORMALIZE_WHITESPACE, -NORMALIZE_REPR, -IGNORE_WHITESPACE, {sign}ELLIPSIS',
            '>>> class R:',
            '...     def __init__(self, t):',
            '...         self.t = t',
            '...     def __repr__(self):',
            '...         return self.t']


@st.composite
def e2e_case(draw):
    def text(lo, hi):
        lines = []
        for _ in range(draw(st.integers(lo, hi))):
            lines.append(' '.join(draw(st.lists(st.sampled_from(E2E_WORDS), min_size=1, max_size=4))))
        return '\n'.join(lines)
    shape = draw(st.sampled_from(['stdout', 'value', 'both', 'both', 'two_prints', 'two_prints']))
    out = text(1, 3) if shape != 'value' else ''
    val = text(1, 2) if shape != 'stdout' else ''
    # two_prints: the output comes from two parts (xdoctest gives the last expression statement a part of its own and lets the
    # want describe it together with the still unmatched output before it)
    full = {'stdout': out, 'value': val, 'both': out + '\n' + val, 'two_prints': out + '\n' + val}[shape]
    # want: the full text with 0-2 substrings replaced by '...', then possibly damaged
    n = len(full)
    k = draw(st.integers(0, 2))
    cuts_ = sorted(draw(st.lists(st.integers(0, n), min_size=2 * k, max_size=2 * k)))
    want, pos = [], 0
    for i in range(k):
        a, b = cuts_[2 * i], cuts_[2 * i + 1]
        want.append(full[pos:a])
        want.append(draw(st.sampled_from(['...', ' ... ', '...'])))
        pos = b
    want.append(full[pos:])
    want = ''.join(want)
    mode = draw(st.sampled_from(['keep', 'keep', 'drop_tail', 'mutate', 'dup_piece', 'bare', 'lead']))
    if mode == 'bare':
        # the whole want is the three dots (the "whatever it prints" idiom): a wildcard only while ELLIPSIS is on
        want = draw(st.sampled_from(['...', '...', '...  ', '......', '....']))
    elif mode == 'lead' and len(full) > 1:
        # a want that opens with the wildcard: the literal rest may begin anywhere in the output, earlier parts included
        want = '...' + full[draw(st.integers(1, len(full) - 1)):]
    elif mode == 'drop_tail' and len(want) > 2:
        want = want[:-draw(st.integers(1, min(3, len(want) - 1)))]
    elif mode == 'mutate' and want:
        i = draw(st.integers(0, len(want) - 1))
        want = want[:i] + 'z' + want[i + 1:]
    elif mode == 'dup_piece' and want:
        # demand the tail once more than it occurs: only overlapping pieces could satisfy that
        tail = want[-draw(st.integers(1, min(4, len(want)))):]
        want = want + '...' + tail
    return {'via': 'doctest', 'shape': shape, 'out': out, 'val': val, 'want': want, 'ellipsis': draw(st.booleans()), 'mode': mode}


def want_is_writable(want):
    lines = want.split('\n')
    if not want.strip() or any(not ln.strip() for ln in lines):
        return False                       # a blank line would end the want
    if len(lines) == 1 and len(want.strip()) >= 3 and set(want.strip()) == {'.'} and want.startswith('...'):
        return True                        # dots only, after a complete statement: a want
    first = lines[0].lstrip()
    if first.startswith('>>>') or first.startswith('... ') or first.rstrip() == '...':
        return False                       # would be read as source ('...x', dots directly followed by text, is a want line)
    if any(ln.lstrip().startswith('>>>') for ln in lines):
        return False
    return True


def check_doctest_case(case, ctx):
    from xdoctest import core
    want = case['want']
    if not want_is_writable(want):
        if ctx is not None:
            ctx.notes['e2e_want_not_writable'] += 1
        return
    shape, out, val = case['shape'], case['out'], case['val']
    if shape == 'stdout':
        stmt = '>>> print({!r})'.format(out)
        alts = [out + '\n']
    elif shape == 'value':
        stmt = '>>> R({!r})'.format(val)
        alts = [val]
    elif shape == 'two_prints':
        stmt = '>>> print({!r})\n>>> print({!r})'.format(out, val)
        alts = [val + '\n', out + '\n' + val + '\n']
    else:
        stmt = '>>> print({!r}) or R({!r})'.format(out, val)
        alts = [out + '\n', val, out + '\n' + val + '\n']
    doc = '\n'.join([ln.format(sign='+' if case['ellipsis'] else '-') for ln in DOC_HEAD] + stmt.split('\n') + want.split('\n')) + '\n'
    nw = _norm(want)
    may_pass = any((True in (ref.verdicts(_norm(g), nw) if case['ellipsis'] else {_norm(g) == nw})) or g == want for g in alts)
    must_pass = any((ref.verdicts(_norm(g), nw) == {True} if case['ellipsis'] else _norm(g) == nw) or g == want for g in alts)
    with warnings.catch_warnings(), contextlib.redirect_stdout(io.StringIO()):
        warnings.simplefilter('ignore')
        exs = list(core.parse_docstr_examples(doc, callname='c06', style='freeform'))
    if len(exs) != 1:
        raise HarnessError('e2e doctest not collected:\n' + doc)
    with contextlib.redirect_stdout(io.StringIO()):
        summary = exs[0].run(on_error='return', verbose=0)
    passed = bool(summary['passed'])
    if ctx is not None:
        ctx.count()
        ctx.tag('e2e:' + shape, 'e2e:' + ('+' if case['ellipsis'] else '-') + 'ELLIPSIS', 'e2e:expected_' + ('pass' if must_pass else ('fail' if not may_pass else 'open')))
        if '...' in want:
            ctx.nontriv(('e2e', doc), {'doctest': doc, 'must_pass': must_pass, 'may_pass': may_pass})
    if passed and not may_pass:
        raise Violation('doctest:{}ELLIPSIS:false_match:{}'.format('+' if case['ellipsis'] else '-', shape),
                        'the doctest passes although no reading of the output {} matches the want {!r} with ELLIPSIS {}\n{}'.format(
                            alts, want, 'on' if case['ellipsis'] else 'off', doc))
    if not passed and must_pass:
        raise Violation('doctest:{}ELLIPSIS:false_mismatch:{}'.format('+' if case['ellipsis'] else '-', shape),
                        'the doctest fails ({}) although the output {} matches the want {!r} with ELLIPSIS {}\n{}'.format(
                            summary['exc_info'] and summary['exc_info'][1], alts, want, 'on' if case['ellipsis'] else 'off', doc))


def hyp_e2e(ctx, n_examples):
    engine.hyp_run(ctx, e2e_case(), check_doctest_case, n_examples)


def hyp_pairs(ctx, n_examples, via):
    alphabet = WIDE if via == 'ellipsis_match' else SAFE
    strat = derived_pair(alphabet).map(lambda t: {'got': t[0], 'want': t[1], 'mode': t[2], 'via': via})
    engine.hyp_run(ctx, strat, _check_derived, n_examples)


def jobs(tier):
    (n1, m1), (n2, m2) = BOUNDS[tier]
    out = []
    nsh = 16 if tier == 'quick' else 64
    for s in range(nsh):
        out.append(('enum_match#%d' % s, 'enum_pairs', dict(shard=s, nshards=nsh, n=n1, m=m1, via='ellipsis_match')))
    for s in range(nsh):
        out.append(('enum_check_output#%d' % s, 'enum_pairs', dict(shard=s, nshards=nsh, n=n2, m=m2, via='check_output')))
    nh = 8
    per = 1500 if tier == 'quick' else 40000
    for s in range(nh):
        out.append(('hyp_match#%d' % s, 'hyp_pairs', dict(n_examples=per, via='ellipsis_match')))
    for s in range(nh):
        out.append(('hyp_check_output#%d' % s, 'hyp_pairs', dict(n_examples=per // 2, via='check_output')))
    for s in range(8):
        out.append(('hyp_e2e#%d' % s, 'hyp_e2e', dict(n_examples=500 if tier == 'quick' else 12000)))
    return out
