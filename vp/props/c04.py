"""
C04 — Directive scoping: block persists, inline is local, skipped code never runs.

Sequences of directive / statement events are (1) enumerated exhaustively up to
a length bound, (2) drawn by Hypothesis up to length 12 with every statement
shape, and run as doctests; the set of statements that executed (TRACE) must be
what a 25-line model of the statement says.  (3) A Hypothesis rule-based state
machine drives ``RuntimeState.update`` directly and compares ``to_dict()`` with
the model after every step.
"""
import contextlib
import io
import itertools
import os
import warnings

from hypothesis import strategies as st

from vp import engine
from vp.engine import Violation

ID = 'C04'
DESIGN_REF = '6.4'
TECHNIQUE = ('bounded-exhaustive enumeration of directive/statement event sequences + Hypothesis sequences + '
             'Hypothesis rule-based state machine on RuntimeState.update; oracle = directive state model')
LEVEL_TEXT = ("All sequences of <= 2 (quick) / <= 3 (thorough) events over the full alphabet (block and inline +/-SKIP, "
              "+/-REQUIRES(met / unmet a / unmet b) on nine statement shapes (incl. decorated functions and classes in both prompt styles), plain statements, statements with a want, "
              "directive text inside strings) x default options are run as doctests and the executed statements compared "
              "with a model written from the statement; Hypothesis extends this to length 12 and a state machine checks "
              "RuntimeState.update step by step. Bounded-exhaustive below the bound, sampled histories above.")
LEVEL_NOTE = ("Trusted: the 25-line model (persistent state + per-statement overlay) and the TRACE instrumentation. Not "
              "generated: comment-only lines inside compound bodies, directives on '...' terminator lines, REPORT_* "
              "directives (C11 covers their non-leakage), malformed directives (C09).")
RULE = ("event sequences over {block, inline} x {+/-SKIP, +/-REQUIRES(met|a|b)} x statement shapes {one line, multi-line "
        "first/last line, compound header, decorated def / class in both prompt styles, statement with want} + plain statements + string decoys, "
        "x default options {none, +SKIP via config, +SKIP via --options}. Non-trivial: an inline directive that differs "
        "from the persistent state or a block directive later reverted, and at least one statement skipped and one run. "
        "Distinct = distinct (sequence, default).")
ASSUMPTIONS = [
    "REQUIRES(module:vp_nonexistent_a) and REQUIRES(env:VP_UNSET_B==1) are unmet, REQUIRES(env:VP_MET==1) is met "
    "(the harness sets/unsets these variables)",
    "a skipped statement's deliberately wrong want is never checked; a running statement's want is its true output",
]

A = 'module:vp_nonexistent_a'
B = 'env:VP_UNSET_B==1'
MET = 'env:VP_MET==1'
DIRS = [('SKIP', True), ('SKIP', False), ('REQ', True, MET), ('REQ', False, MET), ('REQ', True, A),
        ('REQ', False, A), ('REQ', True, B), ('REQ', False, B),
        # one REQUIRES directive with two conditions, the satisfied one written first / last
        ('REQ', True, MET + ', ' + A), ('REQ', False, MET + ', ' + A), ('REQ', True, B + ', ' + MET)]
INLINE_SHAPES = ['one', 'multi_first', 'multi_last', 'compound', 'deco', 'want', 'decoclass', 'decoclass_new', 'deco_new']
PLAIN_SHAPES = ['one', 'multi', 'want', 'string', 'deco', 'string_ml', 'decoclass', 'decoclass_new', 'deco_new', 'blank_prompt', 'string_blank']
DEFAULTS = ['none', 'skip_config', 'skip_cli']


def setup_env():
    os.environ['VP_MET'] = '1'
    os.environ.pop('VP_UNSET_B', None)


def dtext(d):
    if d[0] == 'SKIP':
        return ('+' if d[1] else '-') + 'SKIP'
    return ('+' if d[1] else '-') + 'REQUIRES({})'.format(d[2])


def events_alphabet():
    ev = [['block', [list(d)]] for d in DIRS]
    ev += [['inline', [list(d)], shape] for d in DIRS for shape in INLINE_SHAPES]
    ev += [['stmt', shape] for shape in PLAIN_SHAPES]
    ev += [['block', [['SKIP', True], ['REQ', True, A]]], ['inline', [['REQ', True, A], ['SKIP', False]], 'one']]
    return ev


# the directive prefix is matched case-insensitively and in the 'doctest:' form of the standard module
SPELLINGS = ['xdoctest:', 'xdoctest:', 'doctest:', 'XDOCTEST:', 'xDoctest:', 'DOCTEST:', 'xdoctest:']


def render(ev, k):
    sp = SPELLINGS[k % len(SPELLINGS)]

    def stm(shape, com):
        c = ('  # ' + sp + ' ' + com) if com else ''
        if shape == 'one':
            return ['>>> T.append({}){}'.format(k, c)]
        if shape == 'multi':
            return ['>>> T.append(', '...     {})'.format(k)]
        if shape == 'multi_first':
            return ['>>> T.append({}'.format(c), '...     {})'.format(k)]
        if shape == 'multi_last':
            return ['>>> T.append(', '...     {}){}'.format(k, c)]
        if shape == 'compound':
            return ['>>> if True:{}'.format(c), '...     T.append({})'.format(k)]
        if shape == 'deco':
            return ['>>> @(lambda fn: fn())', '... def f{}():{}'.format(k, c), '...     T.append({})'.format(k)]
        if shape == 'deco_new':
            return ['>>> @(lambda fn: fn())', '>>> def f{}():{}'.format(k, c), '>>>     T.append({})'.format(k)]
        if shape == 'decoclass':
            # the decorator runs when the class statement is executed: skipping must cover the decorator line too
            return ['>>> @(lambda cls: (T.append({}), cls)[1])'.format(k), '... class K{}:{}'.format(k, c), '...     x = 1']
        if shape == 'decoclass_new':
            return ['>>> @(lambda cls: (T.append({}), cls)[1])'.format(k), '>>> class K{}:{}'.format(k, c), '>>>     x = 1']
        if shape == 'want':
            return ['>>> print(T.append({})){}'.format(k, c), 'WANT{}'.format(k)]
        if shape == 'blank_prompt':
            # a bare prompt: an empty executable line in the middle of the chunk
            return ['>>> T.append({})'.format(k), '>>>']
        if shape == 'string_blank':
            return [">>> T.append({}) or '''first".format(k), '...', "... last'''"]
        if shape == 'string':
            return [">>> T.append({}) or '# xdoctest: +SKIP'".format(k)]
        if shape == 'string_ml':
            return [">>> T.append({}) or '''".format(k), '... # xdoctest: +SKIP', "... '''"]
        raise KeyError(shape)
    if ev[0] == 'block':
        return ['>>> # ' + sp + ' ' + ', '.join(dtext(d) for d in ev[1])]
    if ev[0] == 'inline':
        return stm(ev[2], ', '.join(dtext(d) for d in ev[1]))
    return stm(ev[1], None)


def model(seq, default_skip=False):
    """ids (1-based positions) of the statements that run"""
    skip = default_skip
    req = set()
    ran = []
    for k, ev in enumerate(seq, 1):
        if ev[0] == 'block':
            for d in ev[1]:
                if d[0] == 'SKIP':
                    skip = d[1]
                else:
                    for cond in d[2].split(', '):
                        if cond != MET:
                            (req.add if d[1] else req.discard)(cond)
        else:
            s2, r2 = skip, set(req)
            if ev[0] == 'inline':
                for d in ev[1]:
                    if d[0] == 'SKIP':
                        s2 = d[1]
                    else:
                        for cond in d[2].split(', '):
                            if cond != MET:
                                (r2.add if d[1] else r2.discard)(cond)
            if not s2 and not r2:
                ran.append(k)
    return ran


def build_doc(seq, default):
    lines = []
    for k, ev in enumerate(seq, 1):
        lines += render(ev, k)
    lines.append('>>> T.append(99)')
    text = '\n'.join(lines) + '\n'
    dskip = default != 'none'
    exp0 = model(seq, dskip)
    for k in range(1, len(seq) + 1):
        text = text.replace('WANT{}\n'.format(k), 'None\n' if k in exp0 else 'WRONG WANT\n')
    exp = model(list(seq) + [['stmt', 'one']], dskip)
    exp = [99 if x == len(seq) + 1 else x for x in exp]
    return text, exp


def check_case(case, ctx):
    if 'history' in case:
        return replay_history(case['history'])
    setup_env()
    from xdoctest import core
    from xdoctest.doctest_example import DoctestConfig
    seq, default = case['seq'], case.get('default', 'none')
    text, exp = build_doc(seq, default)
    trace = []
    with warnings.catch_warnings(record=True), contextlib.redirect_stdout(io.StringIO()):
        warnings.simplefilter('always')
        examples = list(core.parse_docstr_examples(text, callname='c04', style='freeform'))
        if len(examples) != 1:
            raise Violation('not_collected:{}'.format(len(examples)), 'docstring yields {} doctests\n{}'.format(len(examples), text))
        ex = examples[0]
        ex.mode = 'native'
        ex.global_namespace['T'] = trace
        given = None
        if default == 'skip_config':
            given = {'SKIP': True}
            ex.config['default_runtime_state'] = given
        elif default == 'skip_cli':
            ns = {'options': '+skip', 'offset_linenos': False, 'colored': False, 'reportchoice': 'udiff',
                  'global_exec': None, 'supress_import_errors': False, 'verbose': 0}
            ex.config.update(DoctestConfig()._populate_from_cli(ns))
        summary = ex.run(verbose=0, on_error='return')
        if given is not None and given != {'SKIP': True}:
            raise Violation('default_options_mutated', 'the default option dict given to the doctest became {} during the run '
                            '(directives of one doctest would reach every doctest sharing it)\n{}'.format(given, text))
        if default == 'skip_cli' and ex.config['default_runtime_state'] != {'SKIP': True}:
            raise Violation('default_options_mutated', 'the default options built from the command line became {} during the run\n{}'.format(
                ex.config['default_runtime_state'], text))
    verdict = 'failed' if summary['failed'] else ('skipped' if summary['skipped'] else 'passed')
    expv = 'passed' if exp else 'skipped'
    if verdict == 'failed':
        ev = summary['exc_info'][1]
        raise Violation('doctest_failed:' + type(ev).__name__,
                        'no directive here is malformed and every checked want is right, but the doctest failed with '
                        '{!r}\n{}'.format(str(ev)[:300], text))
    if trace != exp:
        extra = [x for x in trace if x not in exp]
        missing = [x for x in exp if x not in trace]
        kind = 'ran_skipped_statement' if extra else ('skipped_enabled_statement' if missing else 'order')
        raise Violation('trace:' + kind + ':' + _shape_hint(seq, extra or missing),
                        'executed statements {} but the directive model says {}\n{}'.format(trace, exp, text))
    if verdict != expv:
        raise Violation('summary:' + verdict, 'summary is {} expected {}\n{}'.format(verdict, expv, text))


def _shape_hint(seq, ids):
    for i in ids:
        if isinstance(i, int) and 1 <= i <= len(seq):
            ev = seq[i - 1]
            return '{}:{}'.format(ev[0], ev[2] if ev[0] == 'inline' else (ev[1] if ev[0] == 'stmt' else ''))
    return 'tail'


def nontrivial(seq, default):
    exp = model(seq, default != 'none')
    n_stmt = sum(1 for e in seq if e[0] != 'block')
    if not (0 < len(exp) < n_stmt):
        return False
    return any(e[0] == 'inline' for e in seq) or sum(1 for e in seq if e[0] == 'block') >= 2


def enum_sequences(ctx, shard, nshards, maxlen):
    setup_env()
    alpha = events_alphabet()
    cnt = 0
    nt = 0
    sample = None
    idx = 0
    for n in range(1, maxlen + 1):
        for seq in itertools.product(alpha, repeat=n):
            idx += 1
            if idx % nshards != shard:
                continue
            if not any(e[0] != 'block' for e in seq):
                continue
            for default in DEFAULTS:
                case = {'seq': list(seq), 'default': default}
                cnt += 1
                ctx.guard(check_case, case)
                if nontrivial(seq, default):
                    nt += 1
                    if sample is None and n == maxlen:
                        sample = {'default': default, 'doc': build_doc(list(seq), default)[0]}
    ctx.count(cnt)
    ctx.nontriv_bulk(nt, sample)
    ctx.classes['enum:doctests'] += cnt
    if shard == 0:
        ctx.exhaustive.append('all sequences of <= {} events over an alphabet of {} events x {} default settings'.format(
            maxlen, len(alpha), len(DEFAULTS)))


directive_st = st.sampled_from(DIRS).map(list)
event_st = st.one_of(
    st.tuples(st.just('stmt'), st.sampled_from(PLAIN_SHAPES)).map(list),
    st.tuples(st.just('block'), st.lists(directive_st, min_size=1, max_size=2)).map(list),
    st.tuples(st.just('inline'), st.lists(directive_st, min_size=1, max_size=2), st.sampled_from(INLINE_SHAPES)).map(list),
)
case_strategy = st.fixed_dictionaries({'seq': st.lists(event_st, min_size=1, max_size=12),
                                       'default': st.sampled_from(DEFAULTS)})


def _check(case, ctx):
    ctx.count()
    seq = case['seq']
    if not any(e[0] != 'block' for e in seq):
        ctx.tag('hyp:no_statement')
    for e in seq:
        ctx.tag('event:' + e[0] + (':' + e[2] if e[0] == 'inline' else ''))
    if nontrivial(seq, case['default']):
        ctx.nontriv((seq, case['default']), {'default': case['default'], 'doc': build_doc(seq, case['default'])[0]})
    check_case(case, ctx)


def hyp_sequences(ctx, n_examples):
    setup_env()
    engine.hyp_run(ctx, case_strategy, _check, n_examples)


# ---------------------------------------------------------------------------
# unit level: state machine over RuntimeState.update


def _directives(dlist, inline):
    from xdoctest import directive
    text = '# xdoctest: ' + ', '.join(dtext(d) for d in dlist)
    if inline:
        text = 'x = 1  ' + text
    return list(directive.Directive.extract(text))


class UnitModel(object):
    def __init__(self, default_skip):
        self.skip = default_skip
        self.req = set()
        self.eff = (self.skip, set())

    def step(self, dlist, inline):
        s2, r2 = self.skip, set(self.req)
        for d in dlist:
            if d[0] == 'SKIP':
                s2 = d[1]
            else:
                for cond in d[2].split(', '):
                    if cond != MET:
                        (r2.add if d[1] else r2.discard)(cond)
        if not inline:
            self.skip, self.req = s2, set(r2)
        self.eff = (s2, r2)


def replay_history(history):
    """history = [default_skip, [dlist, inline], ...]; plain re-execution"""
    setup_env()
    from xdoctest import directive
    default_skip = history[0]
    rs = directive.RuntimeState({'SKIP': True} if default_skip else None)
    m = UnitModel(default_skip)
    for i, (dlist, inline) in enumerate(history[1:]):
        rs.update(_directives([tuple(d) for d in dlist], inline))
        m.step([tuple(d) for d in dlist], inline)
        d = rs.to_dict()
        if bool(d['SKIP']) != m.eff[0] or set(d['REQUIRES']) != m.eff[1]:
            raise Violation('unit:state_after_update:' + ('inline' if inline else 'block'),
                            'after step {} ({} {}) RuntimeState is SKIP={} REQUIRES={} but the model says SKIP={} '
                            'REQUIRES={}; history {}'.format(i, 'inline' if inline else 'block', dlist, d['SKIP'],
                                                             sorted(d['REQUIRES']), m.eff[0], sorted(m.eff[1]), history),
                            case={'history': history})
        if directive.DEFAULT_RUNTIME_STATE['REQUIRES'] or directive.DEFAULT_RUNTIME_STATE['SKIP']:
            raise Violation('unit:default_state_mutated', 'DEFAULT_RUNTIME_STATE was modified: {}'.format(
                directive.DEFAULT_RUNTIME_STATE), case={'history': history})


def machine_job(ctx, n_examples, steps):
    setup_env()
    from hypothesis.stateful import RuleBasedStateMachine, initialize, rule

    class DirectiveMachine(RuleBasedStateMachine):
        def __init__(self):
            super().__init__()
            self.history = None

        @initialize(default_skip=st.booleans())
        def init(self, default_skip):
            self.history = [default_skip]
            self.ctx.count()

        @rule(dlist=st.lists(directive_st, min_size=0, max_size=3), inline=st.booleans())
        def update(self, dlist, inline):
            self.history.append([dlist, inline])
            self.ctx.notes['machine_steps'] += 1
            if len(self.history) >= 5 and any(h[1] for h in self.history[1:]):
                self.ctx.nontriv(('machine', self.history))
            try:
                replay_history(self.history)
            except Violation as v:
                engine.machine_violation(self, v.key, v.msg, {'history': list(self.history)})

    engine.stateful_run(ctx, DirectiveMachine, n_examples, steps)


def selftest():
    setup_env()
    assert model([['block', [['SKIP', True]]], ['stmt', 'one'], ['inline', [['SKIP', False]], 'one'], ['stmt', 'one']]) == [3]
    assert model([['inline', [['REQ', True, A]], 'one'], ['stmt', 'one']]) == [2]
    assert model([['block', [['REQ', True, A]]], ['inline', [['REQ', False, A]], 'one'], ['stmt', 'one']]) == [2]
    assert model([['stmt', 'one']], default_skip=True) == []
    import importlib.util
    assert importlib.util.find_spec('vp_nonexistent_a') is None
    assert os.environ.get('VP_MET') == '1' and 'VP_UNSET_B' not in os.environ


def jobs(tier):
    ml = 2 if tier == 'quick' else 3
    nsh = 16 if tier == 'quick' else 64
    out = [('enum#%d' % s, 'enum_sequences', dict(shard=s, nshards=nsh, maxlen=ml)) for s in range(nsh)]
    per = 400 if tier == 'quick' else 8000
    out += [('hyp#%d' % s, 'hyp_sequences', dict(n_examples=per)) for s in range(12)]
    out += [('machine#%d' % s, 'machine_job', dict(n_examples=150 if tier == 'quick' else 2500, steps=20)) for s in range(4)]
    return out
