"""
C10 — Native runner tallies and exit status agree with the per-doctest outcomes.

Generated modules (G6) whose doctests have by-construction outcomes are run
through xdoctest.doctest_module (in process, for volume) and through
``python -m xdoctest`` (subprocess in an empty directory, for the exit status
and the final summary line); every statement that may execute appends its
doctest's identifier to a trace file, so "exactly once" is a multiset equality.
"""
import os
import re

from vp import engine, sandbox
from vp.engine import Violation
from vp.gen import outcomes
from vp.gen.draw import composite

ID = 'C10'
DESIGN_REF = '6.10'
TECHNIQUE = ('Hypothesis-generated modules with by-construction doctest outcomes x command x verbosity x style; oracle = '
             'tallies, failed set, executed multiset (trace file) and exit status computed from the generator inventory; '
             'in-process doctest_module runs plus subprocess CLI runs')
LEVEL_TEXT = ("Generated modules of 0-10 documented functions and methods whose doctests are drawn from 14 by-construction "
              "kinds (pass, wrong output, exception, failure in the last statement, all skipped by block SKIP, unmet REQUIRES, every "
              "statement skipped inline or by REQUIRES after a harmless block directive, "
              "partly skipped, expected exception, comment only, force-disabled by each of the five patterns with a body that "
              "would fail; one or two blocks per docstring, google-tagged or bare) in any number and order are run with "
              "command 'all' x verbosity 0-3 x style auto/google/freeform: the trace file must hold every enabled doctest "
              "that executes code exactly once and nothing else, n_total must be the number of enabled doctests, n_passed / "
              "n_failed / n_skipped must equal the by-construction counts and add up to n_total, the failed list must be "
              "exactly the failing set; 'list' must name every collected doctest once, disabled ones included; every doctest "
              "named as callname:num (and by bare callname when that is unambiguous) must run alone, also when it is "
              "force-disabled; the CLI must exit non-zero iff the failing set is non-empty and print the same numbers. "
              "Randomised exploration with shrinking.")
LEVEL_ADDED = ("Further kinds: block SKIP on the first line that is switched off again further down (block or inline), comment-only parts with indented comment lines; a quarter of the cases run with analysis='dynamic'.")
LEVEL_NOTE = ("Trusted: the generator's outcome table (self-tested kind by kind against a hand-written expectation). "
              "The '# pytest.skip' pattern (pytest only) and lower-case / space-less spellings of the disable patterns are not "
              "generated; zero-argument dummy doctests only come into play for names that have no doctest and are not used.")
RULE = ("modules of 0-10 doctest-bearing callables. Non-trivial: >= 3 different outcome classes in one module, or a corner mix "
        "(only skipped, only disabled, last doctest fails, disabled + failing). Distinct = (module, style, command).")
ASSUMPTIONS = [
    "a doctest whose every statement is skipped, or that holds only a comment, is reported skipped (C02)",
    "a force-disabled doctest that is named explicitly runs like any other doctest",
]
STYLES = ['auto', 'google', 'freeform']


def _read_trace(path):
    if not os.path.exists(path):
        return []
    with open(path) as f:
        out = [ln.strip() for ln in f if ln.strip()]
    os.remove(path)
    return out


def _setup(case, d):
    name = sandbox.unique_name('vpc10')
    path = os.path.join(d, name + '.py')
    lines = outcomes.module_lines(case)
    with open(path, 'w') as f:
        f.write('\n'.join(lines) + '\n')
    return name, path, lines


def _expect(inv):
    enabled = [x for x in inv if not x['disabled']]
    exp = {
        'n_total': len(enabled),
        'n_passed': sum(x['outcome'] == 'passed' for x in enabled),
        'n_failed': sum(x['outcome'] == 'failed' for x in enabled),
        'n_skipped': sum(x['outcome'] == 'skipped' for x in enabled),
        'failed': sorted(x['id'] for x in enabled if x['outcome'] == 'failed'),
        'trace': sorted(t for x in enabled for t in x['traces']),
    }
    return exp


def _mix(inv):
    enabled = [x for x in inv if not x['disabled']]
    tags = []
    classes = {x['outcome'] for x in enabled} | ({'disabled'} if len(enabled) < len(inv) else set())
    if len(classes) >= 3:
        tags.append('mix:3plus_classes')
    if enabled and all(x['outcome'] == 'skipped' for x in enabled):
        tags.append('mix:only_skipped')
    if inv and not enabled:
        tags.append('mix:only_disabled')
    if enabled and enabled[-1]['outcome'] == 'failed' and all(x['outcome'] != 'failed' for x in enabled[:-1]):
        tags.append('mix:only_last_fails')
    if len(enabled) < len(inv) and any(x['outcome'] == 'failed' for x in enabled):
        tags.append('mix:disabled_and_failing')
    if not inv:
        tags.append('mix:no_doctests')
    return tags


def check_case(case, ctx):
    import xdoctest
    style = case.get('style', 'auto')
    verbose = case.get('verbose', 0)
    analysis = case.get('analysis', 'auto')      # names, selection and tallies do not depend on how the docstrings are obtained
    with sandbox.scratch('c10') as d:
        name, path, lines = _setup(case, d)
        trace = os.path.join(d, 'trace.txt')
        old = os.environ.get('VP_TRACE')
        os.environ['VP_TRACE'] = trace
        os.environ.pop('VP_NEVER_SET_VARIABLE', None)
        src = '\n'.join('{:3d} {}'.format(i + 1, ln) for i, ln in enumerate(lines))
        try:
            inv = outcomes.inventory(case, style)
            exp = _expect(inv)
            tags = _mix(inv)
            if ctx is not None:
                ctx.count()
                for t in tags:
                    ctx.tag(t)
                for x in inv:
                    ctx.tag('kind:' + x['kind'].split('+')[0])
                if [t for t in tags if t != 'mix:no_doctests']:
                    ctx.nontriv((lines, style, 'all', verbose),
                                {'style': style, 'verbose': verbose, 'expected': exp, 'corner': tags, 'module': '\n'.join(lines)})
            # ---- all
            try:
                with sandbox.quiet():
                    rs = xdoctest.doctest_module(path, command='all', argv=[], style=style, verbose=verbose, analysis=analysis)
            except BaseException as ex:   # noqa  (also pytest's outcome exceptions, which are not Exceptions)
                if isinstance(ex, (KeyboardInterrupt, SystemExit, engine.Abort)):
                    raise
                raise Violation('all:run_raises:' + type(ex).__name__,
                                "running 'all' raised {}: {!r} instead of returning a summary\nstyle={} verbose={}\n{}".format(
                                    type(ex).__name__, ex, style, verbose, src))
            got_trace = sorted(_read_trace(trace))
            where = 'style={} verbose={}\n{}'.format(style, verbose, src)
            if got_trace != exp['trace']:
                missing = [t for t in exp['trace'] if t not in got_trace]
                extra = [t for t in got_trace if t not in exp['trace']]
                twice = sorted({t for t in got_trace if got_trace.count(t) > exp['trace'].count(t)})
                kind = 'not_run' if missing else ('ran_disabled_or_skipped' if extra and not twice else 'ran_twice')
                raise Violation('all:executed:' + kind, "'all' executed {} expected {} (missing {} extra {})\n{}".format(
                    got_trace, exp['trace'], missing, extra, where))
            for k in ('n_total', 'n_passed', 'n_failed', 'n_skipped'):
                if rs.get(k) != exp[k]:
                    raise Violation('all:tally:' + k, "'all' reports {}={} expected {} (summary {})\n{}".format(
                        k, rs.get(k), exp[k], {q: rs.get(q) for q in ('n_total', 'n_passed', 'n_failed', 'n_skipped')}, where))
            if rs['n_passed'] + rs['n_failed'] + rs['n_skipped'] != rs['n_total']:
                raise Violation('all:tally:sum', 'tallies do not add up: {}'.format(rs))
            got_failed = sorted(e.unique_callname for e in rs['failed'])
            if got_failed != exp['failed']:
                raise Violation('all:failed_list', "'all' lists failed {} expected {}\n{}".format(got_failed, exp['failed'], where))
            # ---- list
            with sandbox.quiet() as (out, err, wl):
                xdoctest.doctest_module(path, command='list', argv=[], style=style, verbose=max(verbose, 1), analysis=analysis)
            listed = out.getvalue()
            if _read_trace(trace):
                raise Violation('list:executes', "'list' executed doctest code\n" + where)
            for x in inv:
                n = len(re.findall(r'(?m)^\s+.*\s{}\s*$'.format(re.escape(x['id'])), listed))
                if n != 1:
                    raise Violation('list:missing' if n == 0 else 'list:duplicate',
                                    "'list' names doctest {} {} times (disabled={})\n{}\n{}".format(
                                        x['id'], n, x['disabled'], listed[-1500:], where))
            n_lines = len([ln for ln in listed.splitlines() if re.search(r'\S+:\d+\s*$', ln) and 'xdoctest' in ln])
            if n_lines != len(inv):
                raise Violation('list:extra', "'list' prints {} doctest lines for {} doctests\n{}\n{}".format(
                    n_lines, len(inv), listed[-1500:], where))
            # ---- named
            for x in case.get('named_all', True) and inv or []:
                _check_named(xdoctest, path, trace, x, x['id'], style, verbose, where, analysis)
                same = [y for y in inv if y['callname'] == x['callname']]
                if len(same) == 1:
                    _check_named(xdoctest, path, trace, x, x['callname'], style, verbose, where, analysis)
                if ctx is not None:
                    ctx.count()
        finally:
            if old is None:
                os.environ.pop('VP_TRACE', None)
            else:
                os.environ['VP_TRACE'] = old
            sandbox.purge_modules([name])


def _check_named(xdoctest, path, trace, x, command, style, verbose, where, analysis='auto'):
    try:
        with sandbox.quiet():
            rs = xdoctest.doctest_module(path, command=command, argv=[], style=style, verbose=verbose, analysis=analysis)
    except BaseException as ex:   # noqa
        if isinstance(ex, (KeyboardInterrupt, SystemExit, engine.Abort)):
            raise
        raise Violation('named:run_raises:' + type(ex).__name__, 'naming {!r} raised {}: {!r}\n{}'.format(command, type(ex).__name__, ex, where))
    got = sorted(_read_trace(trace))
    tag = 'disabled' if x['disabled'] else 'enabled'
    if got != sorted(x['traces']):
        raise Violation('named:executed:' + tag, 'naming {!r} executed {} expected {}\n{}'.format(command, got, x['traces'], where))
    if rs.get('n_total') != 1:
        raise Violation('named:n_total:' + tag, 'naming {!r} ran {} doctests\n{}'.format(command, rs.get('n_total'), where))
    oc = 'passed' if rs['n_passed'] else ('failed' if rs['n_failed'] else ('skipped' if rs['n_skipped'] else '?'))
    if oc != x['outcome'] or rs['n_passed'] + rs['n_failed'] + rs['n_skipped'] != 1:
        raise Violation('named:outcome:' + tag, 'naming {!r} gives {} expected {} ({})\n{}'.format(
            command, oc, x['outcome'], {q: rs.get(q) for q in ('n_passed', 'n_failed', 'n_skipped')}, where))
    fl = sorted(e.unique_callname for e in rs['failed'])
    if fl != ([x['id']] if x['outcome'] == 'failed' else []):
        raise Violation('named:failed_list', 'naming {!r}: failed list {}\n{}'.format(command, fl, where))


SUMMARY_RE = re.compile(r'^=== (.*) in [0-9.]+ seconds ===\s*$', re.M)


def check_cli_case(case, ctx):
    style = case.get('style', 'auto')
    verbose = case.get('verbose', 1)
    with sandbox.scratch('c10c') as d:
        moddir = os.path.join(d, 'mod')
        cwd = os.path.join(d, 'cwd')
        os.makedirs(moddir)
        os.makedirs(cwd)
        name, path, lines = _setup(case, moddir)
        trace = os.path.join(d, 'trace.txt')
        inv = outcomes.inventory(case, style)
        exp = _expect(inv)
        env_extra = {'VP_TRACE': trace}
        args = ['-m', 'xdoctest', path, 'all', '--style=' + style, '--verbose={}'.format(verbose)]
        rc, out, err = _run(args, cwd, env_extra)
        src = '\n'.join('{:3d} {}'.format(i + 1, ln) for i, ln in enumerate(lines))
        where = 'style={} verbose={}\n--- stdout\n{}\n--- stderr\n{}\n--- module\n{}'.format(style, verbose, out[-1500:], err[-800:], src)
        if ctx is not None:
            ctx.count()
            ctx.tag('cli')
            for t in _mix(inv):
                ctx.tag('cli:' + t)
            ctx.nontriv(('cli', lines, style, verbose), None)
        should_fail = bool(exp['failed'])
        if (rc != 0) != should_fail or rc not in (0, 1):
            raise Violation('cli:exit_status:' + ('fail_expected' if should_fail else 'ok_expected'),
                            'exit status {} but failing set is {}\n{}'.format(rc, exp['failed'], where))
        got_trace = sorted(_read_trace(trace))
        if got_trace != exp['trace']:
            raise Violation('cli:executed', 'CLI executed {} expected {}\n{}'.format(got_trace, exp['trace'], where))
        if verbose >= 1:     # nothing at all is printed with --verbose=0
            m = SUMMARY_RE.findall(out)
            if len(m) != 1:
                raise Violation('cli:summary_line', 'expected one final summary line, found {}\n{}'.format(m, where))
            nums = {k: 0 for k in ('failed', 'passed', 'skipped')}
            for part in m[0].split(','):
                mm = re.match(r'\s*(\d+) (\w+)', part)
                if mm and mm.group(2) in nums:
                    nums[mm.group(2)] = int(mm.group(1))
            want = {'failed': exp['n_failed'], 'passed': exp['n_passed'], 'skipped': exp['n_skipped']}
            if nums != want:
                raise Violation('cli:summary_numbers', 'summary line says {} expected {}\n{}'.format(nums, want, where))
        # a named doctest through the CLI (the first disabled one if there is one)
        pick = [x for x in inv if x['disabled']] or inv
        if pick and case.get('named_all', True):
            x = pick[0]
            rc, out, err = _run(['-m', 'xdoctest', path, x['id'], '--style=' + style], cwd, env_extra)
            got = sorted(_read_trace(trace))
            if got != sorted(x['traces']) or (rc != 0) != (x['outcome'] == 'failed'):
                raise Violation('cli:named', 'naming {} on the CLI: exit {} executed {} expected outcome {} traces {}\n{}\n{}'.format(
                    x['id'], rc, got, x['outcome'], x['traces'], out[-1200:], src))
            if ctx is not None:
                ctx.count()


def _run(args, cwd, env_extra):
    import subprocess
    env = sandbox.clean_env()
    env.update(env_extra)
    env.pop('VP_NEVER_SET_VARIABLE', None)
    p = subprocess.run(['/venv/bin/python'] + args, cwd=cwd, env=env, stdout=subprocess.PIPE, stderr=subprocess.PIPE,
                       text=True, timeout=300)
    return p.returncode, p.stdout, p.stderr


@composite
def case_strategy(D, max_funcs):
    case = outcomes.gen_module(D, max_funcs=max_funcs)
    case['style'] = D.choice(STYLES)
    case['verbose'] = D.choice([0, 1, 2, 3])
    case['analysis'] = D.choice(['auto', 'auto', 'auto', 'dynamic'])
    return case


def _check(case, ctx):
    if case.get('cli'):
        return check_cli_case(case, ctx)
    return check_case(case, ctx)


def hyp_modules(ctx, n_examples, max_funcs):
    engine.hyp_run(ctx, case_strategy(max_funcs), _check, n_examples)


def hyp_cli(ctx, n_examples, max_funcs):
    engine.hyp_run(ctx, case_strategy(max_funcs).map(lambda c: dict(c, cli=True)), _check, n_examples)


CORNERS = [
    ('only_skipped', ['all_skipped', 'req_unmet', 'comment_only']),
    ('only_disabled', ['disabled', 'disabled']),
    ('last_fails', ['pass', 'partly', 'expected_exc', 'fail_exc']),
    ('disabled_and_failing', ['disabled', 'fail_out', 'pass']),
    ('empty', []),
    ('single_fail', ['fail_last']),
    ('single_pass', ['pass']),
    ('single_skip', ['all_skipped']),
    ('comment_beside_skipped', ['comment_then_skipped', 'skipped_then_comment']),
    ('failures_256', ['fail_exc'] * 256),        # an exit status equal to the number of failures would wrap to 0
    ('failures_257', ['fail_out'] * 257),
]


def corners(ctx, cli):
    """the corner mixes named in the property, every style x verbosity (in process) or one CLI run each"""
    for cname, kinds in CORNERS:
        if cname.startswith('failures_'):
            # hundreds of failing doctests: one in-process 'all' run and one CLI run (the exit status is what matters)
            funcs = [{'name': 'f{}'.format(i), 'layout': 'google', 'in_class': False, 'blocks': [{'kind': k, 'pattern': None}]}
                     for i, k in enumerate(kinds)]
            case = {'funcs': funcs, 'style': 'google', 'verbose': 0 if not cli else 1, 'named_all': False}
            if cli:
                case['cli'] = True
            ctx.guard(_check, case)
            continue
        for layout in ('google', 'bare'):
            funcs = [{'name': 'f{}'.format(i), 'layout': layout, 'in_class': False,
                      'blocks': [{'kind': k, 'pattern': outcomes.DISABLE_PATTERNS[i % len(outcomes.DISABLE_PATTERNS)]
                                  if k == 'disabled' else None}]} for i, k in enumerate(kinds)]
            for style in STYLES:
                for verbose in ([1] if cli else [0, 1, 2, 3]):
                    case = {'funcs': funcs, 'style': style, 'verbose': verbose}
                    if cli:
                        if layout == 'bare' and style != 'auto':
                            continue
                        case['cli'] = True
                    ctx.guard(_check, case)


def health(tot, tier):
    c = tot['classes']
    for need in ('mix:3plus_classes', 'mix:only_skipped', 'mix:only_disabled', 'mix:only_last_fails', 'mix:disabled_and_failing',
                 'kind:disabled', 'kind:comment_only', 'kind:expected_exc', 'cli'):
        if c.get(need, 0) < 1:
            return 'class {} was never generated'.format(need)
    return None


def selftest():
    # outcome table vs hand-written expectation
    hand = {'pass': ('passed', True), 'fail_out': ('failed', True), 'fail_exc': ('failed', True), 'all_skipped': ('skipped', False),
            'comment_only': ('skipped', False), 'partly': ('passed', True), 'expected_exc': ('passed', True),
            'req_unmet': ('skipped', False), 'fail_last': ('failed', True)}
    for k, v in hand.items():
        assert outcomes.outcome_of(k) == v, k
    case = {'funcs': [{'name': 'f0', 'layout': 'google', 'in_class': False, 'blocks': [{'kind': 'pass'}, {'kind': 'fail_exc'}]},
                      {'name': 'f1', 'layout': 'bare', 'in_class': True, 'blocks': [{'kind': 'disabled', 'pattern': '# SCRIPT'}]}]}
    compile('\n'.join(outcomes.module_lines(case)), 'gen', 'exec')
    g = outcomes.inventory(case, 'google')
    assert [x['id'] for x in g] == ['f0:0', 'f0:1'], g
    f = outcomes.inventory(case, 'freeform')
    assert [(x['id'], x['outcome'], x['traces']) for x in f] == [('f0:0', 'failed', ['f0:0', 'f0:1']), ('K.f1:0', 'failed', ['K.f1:0'])], f
    a = outcomes.inventory(case, 'auto')
    assert [x['id'] for x in a] == ['f0:0', 'f0:1', 'K.f1:0'] and a[2]['disabled']
    e = _expect(a)
    assert (e['n_total'], e['n_passed'], e['n_failed'], e['n_skipped']) == (2, 1, 1, 0)


def jobs(tier):
    quick = tier == 'quick'
    out = [('corners', 'corners', dict(cli=False)), ('corners_cli', 'corners', dict(cli=True))]
    out += [('hyp_modules#%d' % s, 'hyp_modules', dict(n_examples=40 if quick else 1200, max_funcs=10)) for s in range(11)]
    out += [('hyp_cli#%d' % s, 'hyp_cli', dict(n_examples=8 if quick else 250, max_funcs=8)) for s in range(3)]
    return out
