"""
C12 — Process-global state is restored after every outcome.

Doctests are generated as a product of outcome kind x position of the
terminating statement x on_error x mode x verbosity x body features (prints,
replaces sys.stdout, alters warning filters / showwarning, awaits, leaves a
task pending); the process state is photographed immediately before
``DocTest.run`` and compared afterwards, whatever happened (including when
the call raised SystemExit or KeyboardInterrupt).  A second target does the
same around ``utils.import_module_from_path``.
"""
import asyncio
import io
import os
import sys
import warnings

from vp import engine, sandbox
from vp.engine import Violation
from vp.gen.draw import composite

ID = 'C12'
DESIGN_REF = '6.12'
TECHNIQUE = ('Hypothesis product of outcome kind x position x on_error x mode x verbosity x state-touching body features; '
             'oracle = before/after snapshot of sys.stdout, sys.stderr, sys.path, warnings.filters, warnings.showwarning, '
             'running / unclosed event loops and cwd, taken around DocTest.run and utils.import_module_from_path')
LEVEL_TEXT = ("Generated doctests (run from a bare docstring and from a module file that imports cleanly or raises at import) "
              "end in one of eleven ways (pass, output mismatch, exception, expected exception, ExitTestException early exit, "
              "everything skipped, import failure of the module, compile-only error, malformed directive, SystemExit(n), "
              "KeyboardInterrupt) at the first / a middle / the last statement, with on_error return / raise, mode native / "
              "pytest, verbosity 0-3, and bodies that print, replace sys.stdout without restoring it, call "
              "warnings.simplefilter / filterwarnings, replace warnings.showwarning, emit warnings, use top-level await, "
              "asyncio.sleep and leave a task pending - in the same part as the terminating statement or in an earlier one. "
              "After the call, however it ended: sys.stdout and sys.stderr are the objects found before, sys.path is the same "
              "list with the same entries, warnings.filters equals its copy and warnings.showwarning is the same function, no "
              "event loop is running and none created by the run is left unclosed, the cwd is unchanged. The same snapshot is "
              "taken around utils.import_module_from_path for modules that import cleanly, raise, import a sibling or sit "
              "three packages deep, or themselves add an entry to sys.path (before failing or not: the temporary directory must be gone and every earlier entry in place), with index 0 and -1. Randomised exploration of a finite product with shrinking.")
LEVEL_ADDED = ("In a third of the cases the same DocTest object is run a second time under another sys.stdout and the snapshot is taken around that run too. Imports also cover modules inside a zip archive (<archive>.zip/<module>.py, importing cleanly or raising), the archive being an entry of the caller's sys.path or not.")
LEVEL_NOTE = ("Trusted: the snapshot comparison; the snapshot is taken inside the Hypothesis example, immediately before the call. "
              "Bodies that replace sys.stderr or edit sys.path themselves are not generated (nothing in xdoctest claims to undo "
              "them), but both are still compared after every generated body.")
RULE = ("one run per case. Non-trivial: the outcome is not 'pass' and the body has >= 1 state-touching feature. Distinct = "
        "(outcome, position, on_error, mode, verbosity, feature set, source).")
ASSUMPTIONS = [
    "SystemExit and KeyboardInterrupt raised by doctest code are meant to propagate out of run(); the state must still be restored",
    "event loops that existed before the call are not the run's business (only loops created during the call are inspected)",
]
OUTCOMES = ['pass', 'mismatch', 'exception', 'expected_exc', 'exit_test', 'all_skipped', 'import_failure', 'import_system_exit', 'compile_error',
            'bad_directive', 'system_exit', 'keyboard_interrupt']
FEATURES = ['prints', 'replace_stdout', 'simplefilter', 'filterwarnings', 'showwarning', 'warn', 'await', 'sleep', 'pending_task',
            'stdout_in_func', 'close_stdout', 'close_stdout_with', 'requires_module', 'requires_missing_module']

IMPORT_KINDS = ['clean', 'raises', 'syntax_error', 'sibling', 'sibling_raises', 'deep', 'init_raises', 'edits_path', 'edits_path_raises',
                'edits_path_front', 'edits_path_front_raises', 'system_exit', 'keyboard_interrupt', 'zip', 'zip_raises', 'zip_on_path',
                'zip_raises_on_path']

FEATURE_LINES = {
    'prints': [">>> print('some output')"],
    'replace_stdout': ['>>> import sys, io', '>>> sys.stdout = io.StringIO()'],
    'simplefilter': ['>>> import warnings', ">>> warnings.simplefilter('error')"],
    'filterwarnings': ['>>> import warnings', ">>> warnings.filterwarnings('ignore', message='vp .*')"],
    'showwarning': ['>>> import warnings', '>>> warnings.showwarning = lambda *a, **k: None'],
    'warn': ['>>> import warnings', ">>> warnings.warn('vp doctest warning', UserWarning)"],
    'await': ['>>> import asyncio', '>>> await asyncio.sleep(0)'],
    'sleep': ['>>> import asyncio', '>>> async def _co():', '...     await asyncio.sleep(0)', '...     return 1', '>>> r = await _co()'],
    'pending_task': ['>>> import asyncio', '>>> async def _leave():', '...     asyncio.ensure_future(asyncio.sleep(30))',
                     '>>> await _leave()'],
    # the doctest closes the stream it finds installed as sys.stdout (xdoctest's capture stream): whatever run() does about
    # that, the process must get its own sys.stdout back
    # a module is looked up by name while the doctest runs
    'requires_module': ['>>> # xdoctest: +REQUIRES(module:os)', ">>> print('requires ok')"],
    'requires_missing_module': [">>> print('maybe')  # xdoctest: +REQUIRES(module:vp_no_such_module_zz)"],
    'close_stdout': ['>>> import sys', '>>> sys.stdout.close()'],
    'close_stdout_with': ['>>> import sys', '>>> with sys.stdout:', "...     print('closing on exit')"],
    'stdout_in_func': ['>>> import sys, io', '>>> def _swap():', '...     sys.stdout = io.StringIO()', "...     print('lost')",
                       '>>> _swap()'],
}

TERMINATORS = {
    'pass': [">>> print('fine')", 'fine'],
    'mismatch': [">>> print('got this')", 'wanted that'],
    'exception': [">>> raise KeyError('vp boom')"],
    'expected_exc': [">>> raise ValueError('vp expected')", 'Traceback (most recent call last):', 'ValueError: vp expected'],
    'exit_test': ['>>> import xdoctest', '>>> raise xdoctest.ExitTestException()'],
    'compile_error': ['>>> return 5'],
    'bad_directive': ['>>> x = 1  # xdoctest: +REQUIRES(nosuchkind:zzz)'],
    'system_exit': ['>>> raise SystemExit(3)'],
    'keyboard_interrupt': ['>>> raise KeyboardInterrupt()'],
}


def build_doc(case):
    oc = case['outcome']
    lines = []
    if oc == 'all_skipped':
        lines.append('>>> # xdoctest: +SKIP')
    fillers = case.get('fillers', 2)
    pos = case.get('position', 'last')
    before = {'first': 0, 'middle': max(1, fillers // 2), 'last': fillers}[pos]
    k = 0

    def filler():
        nonlocal k
        k += 1
        return [">>> v{} = {}".format(k, k), ">>> print('filler', v{})".format(k), 'filler {}'.format(k)]
    for _ in range(before):
        lines += filler()
    feats = case.get('features', [])
    for f in feats:
        lines += FEATURE_LINES[f]
        if case.get('split') and f != feats[-1]:
            # a want in between puts the feature and the terminating statement into different parts
            lines += [">>> print('sep')", 'sep']
    if case.get('split') and feats:
        lines += [">>> print('sep')", 'sep']
    if oc in TERMINATORS:
        lines += TERMINATORS[oc]
    else:
        lines += TERMINATORS['pass']
    for _ in range(fillers - before):
        lines += filler()
    return lines


class _LoopRecorder(object):
    """records every event loop created through the event loop policy while installed (asyncio.run, asyncio.Runner and
    asyncio.new_event_loop all go through it); much cheaper than scanning the heap after every case"""

    def __init__(self):
        self.policy = asyncio.get_event_loop_policy()
        self.orig = self.policy.new_event_loop
        self.created = []

        def recording():
            loop = self.orig()
            self.created.append(loop)
            return loop
        self.policy.new_event_loop = recording

    def uninstall(self):
        try:
            del self.policy.new_event_loop      # drop the instance attribute, the class method shows again
        except AttributeError:
            pass


def snapshot():
    loops = _LoopRecorder()
    return {
        'stdout': sys.stdout, 'stderr': sys.stderr, 'path_obj': sys.path, 'path': list(sys.path),
        'filters': list(warnings.filters), 'showwarning': warnings.showwarning, 'cwd': os.getcwd(), 'loops': loops,
        'stdout__': sys.__stdout__,
    }


def compare(before, what):
    problems = []
    if sys.stdout is not before['stdout']:
        problems.append(('stdout', 'sys.stdout is {!r}, was {!r}'.format(sys.stdout, before['stdout'])))
    if sys.stderr is not before['stderr']:
        problems.append(('stderr', 'sys.stderr is {!r}, was {!r}'.format(sys.stderr, before['stderr'])))
    if sys.path is not before['path_obj']:
        problems.append(('sys_path_object', 'sys.path is a different list object'))
    if list(sys.path) != before['path']:
        problems.append(('sys_path', 'sys.path gained {} lost {}'.format(
            [p for p in sys.path if p not in before['path']], [p for p in before['path'] if p not in sys.path])))
    if list(warnings.filters) != before['filters']:
        problems.append(('warning_filters', 'warnings.filters gained {} lost {}'.format(
            [f for f in warnings.filters if f not in before['filters']][:3],
            [f for f in before['filters'] if f not in warnings.filters][:3])))
    if warnings.showwarning is not before['showwarning']:
        problems.append(('showwarning', 'warnings.showwarning was replaced'))
    try:
        running = asyncio._get_running_loop()
    except Exception:  # noqa
        running = None
    if running is not None:
        problems.append(('loop_running', 'an event loop is still running'))
    left = [o for o in before['loops'].created if not o.is_closed()]
    if left:
        problems.append(('loop_unclosed', '{} event loop(s) created by the run are not closed'.format(len(left))))
    if os.getcwd() != before['cwd']:
        problems.append(('cwd', 'cwd is {} was {}'.format(os.getcwd(), before['cwd'])))
    return problems


def restore(before):
    sys.stdout = before['stdout']
    sys.stderr = before['stderr']
    sys.path = before['path_obj']
    sys.path[:] = before['path']
    warnings.filters[:] = before['filters']
    warnings.showwarning = before['showwarning']
    try:
        os.chdir(before['cwd'])
    except OSError:
        pass
    before['loops'].uninstall()
    for o in before['loops'].created:
        if not o.is_closed():
            try:
                o.close()
            except Exception:  # noqa
                pass


def check_case(case, ctx):
    if case.get('target') == 'import':
        return check_import_case(case, ctx)
    from xdoctest import core
    doc = build_doc(case)
    oc = case['outcome']
    name = sandbox.unique_name('vpc12')
    with sandbox.scratch('c12') as d, sandbox.quiet():
        use_module = case.get('from_module') or oc in ('import_failure', 'import_system_exit')
        if use_module:
            path = os.path.join(d, name + '.py')
            body = ['def f():', '    """', '    Example:'] + ['        ' + ln for ln in doc] + ['    """', '']
            if oc == 'import_failure':
                body = ["raise RuntimeError('vp: import of this module fails')", ''] + body
            if oc == 'import_system_exit':
                body = ['import sys', 'sys.exit(4)', ''] + body
            with open(path, 'w') as f:
                f.write('\n'.join(body) + '\n')
            exs = list(core.parse_doctestables(path, style='google', analysis='static'))
        else:
            exs = list(core.parse_docstr_examples('\n'.join(doc) + '\n', callname='c12', style='freeform'))
        if len(exs) != 1:
            raise engine.HarnessError('generated doctest was not collected: {}'.format(doc))
        ex = exs[0]
        ex.mode = case.get('mode', 'native')
        empty_entry = bool(case.get('path_has_empty_entry'))
        if empty_entry:
            sys.path.insert(0, '')        # as under `python -c`, `python -` and the REPL
        before = snapshot()
        raised = None
        try:
            ex.run(on_error=case.get('on_error', 'return'), verbose=case.get('verbose', 0))
        except BaseException as e:   # noqa  (SystemExit, KeyboardInterrupt and pytest's Skipped are expected here)
            raised = e
        problems = compare(before, 'run')
        restore(before)
        if not problems and case.get('rerun'):
            # the same object once more, in a process whose sys.stdout is another stream by now (a capture fixture, an
            # application that swapped it): what counts is the stream found when this run starts
            sys.stdout = io.StringIO()
            before2 = snapshot()
            try:
                ex.run(on_error=case.get('on_error', 'return'), verbose=case.get('verbose', 0))
            except BaseException as e:   # noqa
                pass
            problems = [('rerun_' + k, 'second run of the same object: ' + m) for k, m in compare(before2, 'rerun')]
            restore(before2)
            restore(before)
        if empty_entry:
            sys.path.pop(0)
        sandbox.purge_modules([name])
    if ctx is not None:
        ctx.count()
        ctx.tag('outcome:' + oc, 'on_error:' + case.get('on_error', 'return'), 'mode:' + case.get('mode', 'native'))
        ctx.tag('raised:' + (type(raised).__name__ if raised is not None else 'none'))
        if case.get('rerun'):
            ctx.tag('rerun_under_another_stdout')
        for f in case.get('features', []):
            ctx.tag('feature:' + f)
        if oc != 'pass' and case.get('features'):
            ctx.nontriv((case,), {'case': {k: case[k] for k in case if k != 'target'}, 'docstring': doc,
                                  'ended_with': type(raised).__name__ if raised is not None else 'return'})
    # the outcome must be what the generator intended (otherwise the case tests something else than it claims)
    if oc in ('system_exit', 'keyboard_interrupt') and 'all' not in oc:
        want = SystemExit if oc == 'system_exit' else KeyboardInterrupt
        if not isinstance(raised, want):
            reached = _terminator_reachable(case)
            if reached:
                raise Violation('did_not_propagate:' + oc, '{} raised by the doctest did not leave run(): {!r}\n{}'.format(
                    want.__name__, raised, '\n'.join(doc)))
    if problems:
        key = 'leak:{}:{}'.format(problems[0][0], oc)
        raise Violation(key, 'after run(on_error={!r}, verbose={}, mode={!r}) ending with {}: {}\n{}'.format(
            case.get('on_error'), case.get('verbose'), case.get('mode'), type(raised).__name__ if raised is not None else 'a summary',
            '; '.join(p[1] for p in problems), '\n'.join(doc)))


def _terminator_reachable(case):
    """features that end the doctest before the terminating statement (simplefilter('error') + warn)"""
    feats = case.get('features', [])
    if 'simplefilter' in feats and 'warn' in feats and feats.index('simplefilter') < feats.index('warn'):
        return False
    if 'close_stdout' in feats or 'close_stdout_with' in feats:
        return False       # reading the closed capture stream ends the run before the terminating statement
    return True


def check_import_case(case, ctx):
    from xdoctest import utils
    kind = case['kind']
    index = case.get('index', -1)
    top = sandbox.unique_name('vpc12i')
    with sandbox.scratch('c12i') as root, sandbox.quiet():
        files = {}
        if kind == 'clean':
            files[top + '.py'] = 'X = 1\n'
            target = top + '.py'
        elif kind == 'raises':
            files[top + '.py'] = "X = 1\nraise ValueError('vp import fails')\n"
            target = top + '.py'
        elif kind == 'syntax_error':
            files[top + '.py'] = 'def broken(:\n'
            target = top + '.py'
        elif kind in ('system_exit', 'keyboard_interrupt'):
            # the import ends with an exception that is not an Exception (sys.exit() at module level, Ctrl-C)
            files[top + '.py'] = 'X = 1\nraise {}\n'.format('SystemExit(3)' if kind == 'system_exit' else 'KeyboardInterrupt()')
            target = top + '.py'
        elif kind == 'sibling':
            files[top + '/__init__.py'] = ''
            files[top + '/a.py'] = 'from . import b\nX = b.Y\n'
            files[top + '/b.py'] = 'Y = 2\n'
            target = top + '/a.py'
        elif kind == 'sibling_raises':
            files[top + '/__init__.py'] = ''
            files[top + '/a.py'] = 'from . import b\n'
            files[top + '/b.py'] = "raise KeyError('vp sibling fails')\n"
            target = top + '/a.py'
        elif kind == 'deep':
            files[top + '/__init__.py'] = ''
            files[top + '/p/__init__.py'] = ''
            files[top + '/p/q/__init__.py'] = ''
            files[top + '/p/q/leaf.py'] = 'Z = 3\n'
            target = top + '/p/q/leaf.py'
        elif kind == 'init_raises':
            files[top + '/__init__.py'] = "raise RuntimeError('vp package init fails')\n"
            files[top + '/m.py'] = 'Q = 1\n'
            target = top + '/m.py'
        elif kind in ('edits_path', 'edits_path_raises', 'edits_path_front', 'edits_path_front_raises'):
            # the imported module itself adds an entry to sys.path (displacing the temporary one): that entry is the
            # module's own doing, but the temporary directory must be gone and every earlier entry still in place
            how = 'insert(0, "/nonexistent/vp_vendor")' if 'front' in kind else 'append("/nonexistent/vp_vendor")'
            files[top + '.py'] = 'import sys\nsys.path.{}\n'.format(how) + ("raise ImportError('vp: fails after editing sys.path')\n"
                                                                          if kind.endswith('raises') else '')
            target = top + '.py'
        elif kind.startswith('zip'):
            target = None
        else:
            raise KeyError(kind)
        archive = None
        if kind.startswith('zip'):
            # a module inside a zip archive, addressed as <archive>.zip/<module>.py; the archive itself may already be an entry
            # of sys.path (zipapp / egg style) - that entry belongs to the caller
            import zipfile
            archive = os.path.join(root, top + '_arch.zip')
            os.makedirs(root, exist_ok=True)
            with zipfile.ZipFile(archive, 'w') as zf:
                zf.writestr(top + '.py', "X = 1\nraise ValueError('vp import from the archive fails')\n" if 'raises' in kind else 'X = 1\n')
            target = os.path.basename(archive) + '/' + top + '.py'
            files = {}
            if kind.endswith('on_path'):
                sys.path.append(archive)
        for rel, text in files.items():
            p = os.path.join(root, *rel.split('/'))
            os.makedirs(os.path.dirname(p), exist_ok=True)
            with open(p, 'w') as f:
                f.write(text)
        before = snapshot()
        raised = None
        try:
            utils.import_module_from_path(os.path.join(root, *target.split('/')), index=index)
        except BaseException as e:   # noqa
            raised = e
        after_path = list(sys.path)
        if kind.startswith('edits_path'):
            # set the module's own entry aside before comparing
            sys.path[:] = [p for p in sys.path if p != '/nonexistent/vp_vendor']
        problems = compare(before, 'import')
        restore(before)
        if archive is not None and archive in sys.path:
            sys.path.remove(archive)
        sandbox.purge_modules([top])
    if ctx is not None:
        ctx.count()
        ctx.tag('import:' + kind, 'index:{}'.format(index))
        if kind not in ('clean',):
            ctx.nontriv(('import', kind, index), {'import_kind': kind, 'index': index, 'raised': repr(raised)[:200]})
    expect_raise = kind in ('raises', 'syntax_error', 'sibling_raises', 'init_raises', 'edits_path_raises', 'edits_path_front_raises',
                            'system_exit', 'keyboard_interrupt', 'zip_raises', 'zip_raises_on_path')
    if expect_raise != (raised is not None):
        raise Violation('import_outcome:' + kind, 'import of a {} module: raised={!r}'.format(kind, raised))
    if kind.startswith('edits_path') and root in after_path:
        raise Violation('import_leak:tempdir_left:' + kind,
                        'the temporary directory is still in sys.path after import_module_from_path of a module that edits '
                        'sys.path itself (index={}, raised={!r})'.format(index, raised))
    if problems:
        raise Violation('import_leak:{}:{}'.format(problems[0][0], kind),
                        'after import_module_from_path of a {} module (index={}): {}'.format(kind, index, '; '.join(p[1] for p in problems)))


@composite
def case_strategy(D):
    oc = D.choice(OUTCOMES)
    feats = D.subset(FEATURES, max_size=3)
    feats = D.shuffled(feats)
    return {'outcome': oc, 'position': D.choice(['last', 'first', 'middle']), 'fillers': D.int(0, 3),
            'features': feats, 'split': D.bool(), 'on_error': D.choice(['return', 'raise']),
            'mode': D.choice(['native', 'pytest']), 'verbose': D.choice([0, 1, 2, 3]), 'from_module': D.chance(1, 4),
            'path_has_empty_entry': D.chance(1, 3), 'rerun': D.chance(1, 3)}


@composite
def import_strategy(D):
    return {'target': 'import', 'kind': D.choice(IMPORT_KINDS), 'index': D.choice([-1, 0])}


def hyp_runs(ctx, n_examples):
    engine.hyp_run(ctx, case_strategy(), check_case, n_examples)


def hyp_imports(ctx, n_examples):
    engine.hyp_run(ctx, import_strategy(), check_case, n_examples)


def product(ctx, shard, nshards):
    """every outcome x single feature x on_error x mode x verbosity {0, 2} x split, once"""
    n = 0
    for oc in OUTCOMES:
        for f in [None] + FEATURES:
            for on_error in ('return', 'raise'):
                for mode in ('native', 'pytest'):
                    for verbose in (0, 2):
                        for split in (False, True):
                            n += 1
                            if n % nshards != shard:
                                continue
                            case = {'outcome': oc, 'position': 'last', 'fillers': 1, 'features': [f] if f else [], 'split': split,
                                    'on_error': on_error, 'mode': mode, 'verbose': verbose, 'from_module': False,
                                    'path_has_empty_entry': bool(n % 2), 'rerun': n % 3 == 0}
                            ctx.guard(check_case, case)
    if shard == 0:
        ctx.exhaustive.append('outcome (11) x single feature (11) x on_error (2) x mode (2) x verbosity {0,2} x split (2)')
        for kind in IMPORT_KINDS:
            for index in (-1, 0):
                ctx.guard(check_case, {'target': 'import', 'kind': kind, 'index': index})


def health(tot, tier):
    c = tot['classes']
    for need in ['outcome:' + o for o in OUTCOMES] + ['raised:SystemExit', 'raised:KeyboardInterrupt', 'raised:none', 'feature:await',
                                                       'import:raises', 'import:deep']:
        if c.get(need, 0) < 1:
            return 'class {} was never generated'.format(need)
    return None


def selftest():
    # the snapshot comparison must notice each kind of leak
    b = snapshot()
    import io
    old = sys.stdout
    sys.stdout = io.StringIO()
    assert compare(b, 't')[0][0] == 'stdout'
    sys.stdout = old
    sys.path.append('/vp/selftest')
    assert compare(b, 't')[0][0] == 'sys_path'
    sys.path.pop()
    warnings.filters.insert(0, ('error', None, Warning, None, 0))
    assert compare(b, 't')[0][0] == 'warning_filters'
    warnings.filters.pop(0)
    loop = asyncio.new_event_loop()
    assert compare(b, 't')[0][0] == 'loop_unclosed'
    loop.close()
    assert compare(b, 't') == []
    restore(b)
    assert 'new_event_loop' not in vars(asyncio.get_event_loop_policy())
    for oc in OUTCOMES:
        build_doc({'outcome': oc, 'features': FEATURES[:2], 'split': True, 'fillers': 2, 'position': 'middle'})


def jobs(tier):
    quick = tier == 'quick'
    out = [('product#%d' % s, 'product', dict(shard=s, nshards=8)) for s in range(8)]
    out += [('hyp_runs#%d' % s, 'hyp_runs', dict(n_examples=1500 if quick else 20000)) for s in range(7)]
    out += [('hyp_imports', 'hyp_imports', dict(n_examples=40 if quick else 600))]
    return out
