"""
C03 — Exceptions are never swallowed; only a matching expected traceback passes.

Full product of the decision table (exception source x want form x flag
setting x way the flags are given x position), every cell instantiated with
fixed and with Hypothesis-drawn messages.  The true final traceback line comes
from CPython (traceback.format_exception_only on a reference execution).
"""
import contextlib
import io
import itertools
import traceback
import warnings

from hypothesis import strategies as st

from vp import engine
from vp.engine import HarnessError, Violation
from vp.ref import pyexec

ID = 'C03'
DESIGN_REF = '6.3'
TECHNIQUE = ('decision-table product (exception source x want form x flags x flag carrier x position) enumerated '
             'exhaustively, cells instantiated with Hypothesis-drawn messages; oracle table written from the statement, '
             'true exception text from CPython')
LEVEL_TEXT = ("Every cell of the table exception-source (18, incl. SyntaxError and IndentationError raised at run time, an exception group and pytest's failure outcomes) x want-form (14, incl. tracebacks that name only the type or are cut off before the final line) x flag-set (8) x carrier (3) x position (3) is "
              "visited (quick: with two fixed messages; thorough: plus tens of thousands of drawn messages) and the verdict, "
              "the recorded exception class and the trace of statements before/after are compared with the table written "
              "from the statement. Fault-enumeration style exploration of a finite table with sampled parameters.")
LEVEL_ADDED = ('Sources include exceptions raised under a top-level await (expression statement, assignment, async with).')
LEVEL_NOTE = ("Trusted: CPython's traceback.format_exception_only for the true final line; the oracle table (DESIGN 6.3). "
              "SyntaxError, exception notes and wants holding a traceback header after other output are outside the domain; "
              "IGNORE_WANT on code that does not raise is not asserted.")
RULE = ("cells (source, want form, flags, carrier, position) x messages. Non-trivial: every cell except (no exception, "
        "no want). Distinct = distinct (cell, message).")
ASSUMPTIONS = [
    "a want is a traceback block iff a line starts with 'Traceback (most recent call last):' or 'Traceback (innermost last):' "
    "and a later line starts with a word character (the documented doctest convention)",
    "traceback.format_exception_only gives the final line(s) CPython prints for the exception",
]

SOURCES = ['builtin', 'nomsg', 'qualified', 'qualified2', 'userdef', 'library', 'helper', 'noraise', 'syntax_eval', 'indent_exec', 'group',
           'pytest_fail', 'pytest_raises', 'falsy_exc', 'falsy_len_exc', 'await_expr', 'await_assign', 'async_with']
OUTCOME_SOURCES = ('pytest_fail', 'pytest_raises')
FORMS = ['none', 'exact', 'stack', 'innermost', 'wrongmsg', 'wrongtype', 'prose', 'bare', 'ellipsis', 'unqualified', 'typeonly', 'typecolon', 'truncated_tb', 'header_only']
FLAGSETS = [(), ('IED',), ('-ELL',), ('IW',), ('IED', '-ELL'), ('IED', 'IW'), ('-ELL', 'IW'), ('IED', '-ELL', 'IW')]
CARRIERS = ['block', 'inline', 'default']
POSITIONS = ['first', 'middle', 'last']
DIRECTIVE = {'IED': '+IGNORE_EXCEPTION_DETAIL', '-ELL': '-ELLIPSIS', 'IW': '+IGNORE_WANT'}
STATEKEY = {'IED': ('IGNORE_EXCEPTION_DETAIL', True), '-ELL': ('ELLIPSIS', False), 'IW': ('IGNORE_WANT', True)}
HEADER = 'Traceback (most recent call last):'
HEADER2 = 'Traceback (innermost last):'


def raising_lines(source, msg, k):
    """(setup lines, raising line)"""
    m = repr(msg)
    if source == 'builtin':
        return [], 'raise ValueError({})'.format(m)
    if source == 'nomsg':
        return [], 'raise ValueError'
    if source == 'qualified':
        return ['import configparser'], 'raise configparser.Error({})'.format(m)
    if source == 'qualified2':
        return ['import email.errors'], 'raise email.errors.MessageError({})'.format(m)
    if source == 'userdef':
        return ['class MyErr{}(Exception):'.format(k), '    pass'], 'raise MyErr{}({})'.format(k, m)
    if source == 'library':
        return [], 'int({})'.format(repr('x' + msg))
    if source == 'helper':
        return ['def boom{}(m):'.format(k), '    raise KeyError(m)'], 'boom{}({})'.format(k, m)
    if source == 'noraise':
        return [], 'T.append(50)'
    if source == 'syntax_eval':
        # a SyntaxError raised at run time carries file / source / caret lines; only its final line is the message
        return [], "eval('1 +' + {})".format(repr(' ' * (len(msg) % 3)))
    if source == 'indent_exec':
        return [], "exec('if 1:\\nx = ' + {})".format(repr(str(len(msg))))
    if source == 'group':
        return [], 'raise ExceptionGroup({}, [ValueError(1), KeyError(2)])'.format(m)
    if source == 'await_expr':
        # the statement awaits at top level (expression statement / assignment / async with): the exception is raised
        # inside the event loop the doctest runner drives
        return ['async def aco{}():'.format(k), '    raise ValueError({})'.format(m)], 'await aco{}()'.format(k)
    if source == 'await_assign':
        return ['async def aco{}():'.format(k), '    raise ValueError({})'.format(m)], 'res{0} = await aco{0}()'.format(k)
    if source == 'async_with':
        return ['import contextlib', '@contextlib.asynccontextmanager', 'async def acm{}():'.format(k), '    raise KeyError({})'.format(m),
                '    yield 1'], 'async with acm{}() as w: pass'.format(k)
    if source == 'falsy_exc':
        # an exception whose instances are falsy is an exception all the same
        return ['class Quiet{}(Exception):'.format(k), '    def __bool__(self):', '        return False'], 'raise Quiet{}({})'.format(k, m)
    if source == 'falsy_len_exc':
        return ['class Multi{}(Exception):'.format(k), '    def __len__(self):', '        return 0'], 'raise Multi{}({})'.format(k, m)
    if source == 'pytest_fail':
        # pytest's failure outcome is a BaseException: it must leave run() or fail the doctest, never pass silently
        return ['import pytest'], 'pytest.fail({})'.format(m)
    if source == 'pytest_raises':
        return ['import pytest'], 'exec("with pytest.raises(KeyError):\\n    pass")'
    raise KeyError(source)


def true_final(source, msg, k):
    """final traceback text printed by CPython for the raising statement, or None"""
    setup, line = raising_lines(source, msg, k)
    ns = {'T': []}
    try:
        out, value, is_expr, exc = pyexec.exec_unit('\n'.join(setup + [line]), ns)
    except BaseException as ex:   # noqa  (pytest outcome exceptions are not Exceptions)
        exc = ex
    if exc is None:
        return None, None
    text = traceback.format_exception_only(type(exc), exc)[-1]
    return text.rstrip('\n'), type(exc).__name__


def split_type(final):
    first = final.split('\n', 1)[0]
    if ':' in first:
        tp = first.split(':', 1)[0]
    else:
        tp = first
    rest = final[len(tp):]
    return tp, rest


def want_lines(form, final, fallback_final):
    """want lines for the form; None when the form does not apply"""
    fin = final if final is not None else fallback_final
    tp, rest = split_type(fin)
    if form == 'none':
        return []
    if form == 'exact':
        return [HEADER] + fin.split('\n')
    if form == 'stack':
        return [HEADER, '  File "<stdin>", line 1, in <module>', '    ...'] + fin.split('\n')
    if form == 'innermost':
        return [HEADER2] + fin.split('\n')
    if form == 'wrongmsg':
        return [HEADER, tp + ': WRONGMSG']
    if form == 'wrongtype':
        parts = tp.split('.')
        parts[-1] = 'OtherError'
        return [HEADER] + ('.'.join(parts) + rest).split('\n')
    if form == 'prose':
        return ['some prose output']
    if form == 'bare':
        return fin.split('\n')
    if form == 'ellipsis':
        if not rest:
            return None
        return [HEADER, tp + ': ...']
    if form == 'unqualified':
        if '.' not in tp:
            return None
        return [HEADER] + (tp.split('.')[-1] + rest).split('\n')
    if form == 'truncated_tb':
        # a traceback cut off before its final 'Type: message' line: it names no exception at all
        return [HEADER, '  File "<stdin>", line 1, in <module>', '    ...']
    if form == 'header_only':
        return [HEADER]
    if form == 'typeonly':
        # the traceback names the right type but no message at all
        if not rest:
            return None
        return [HEADER, tp]
    if form == 'typecolon':
        if not rest:
            return None
        return [HEADER, tp + ':']
    raise KeyError(form)


def expected(source, form, flags):
    """-> ('pass' | 'fail_exc' | 'fail_any' | 'fail_gotwant' | None)"""
    ied = 'IED' in flags
    ell = '-ELL' not in flags
    iw = 'IW' in flags
    if source == 'noraise':
        if form == 'none':
            return 'pass'
        if iw:
            return None     # the want is ignored by request; not decided by the statement
        return 'fail_gotwant'
    if source in OUTCOME_SOURCES:
        return 'fail_any_or_propagate'
    if form in ('none', 'prose', 'bare'):
        return 'fail_exc'
    if form in ('exact', 'stack', 'innermost'):
        return 'pass'
    if form == 'wrongmsg':
        return 'pass' if ied else 'fail_any'
    if form == 'wrongtype':
        return 'fail_any'
    if form == 'ellipsis':
        return 'pass' if (ell or ied) else 'fail_any'
    if form == 'unqualified':
        return 'pass' if ied else 'fail_any'
    if form in ('truncated_tb', 'header_only'):
        return 'fail_any'
    if form in ('typeonly', 'typecolon'):
        # an absent message is a different message: only IGNORE_EXCEPTION_DETAIL makes it pass
        return 'pass' if ied else 'fail_any'
    raise KeyError(form)


def build(case):
    """-> (doc, default_state, n_before, final, excname) or None when the cell does not apply"""
    source, form, flags = case['source'], case['form'], tuple(case['flags'])
    carrier, position, msg = case['carrier'], case['position'], case['msg']
    final, excname = true_final(source, msg, 7)
    if (final is None) != (source == 'noraise'):
        raise HarnessError('source {} with message {!r}: unexpected reference outcome {!r}'.format(source, msg, final))
    fallback = 'ValueError: ' + (msg or 'm')
    wl = want_lines(form, final, fallback.split('\n')[0] if '\n' in fallback else fallback)
    if wl is None:
        return None
    if any(not ln.strip() for ln in wl):
        return None
    setup, rline = raising_lines(source, msg, 7)
    lines = []
    n_before = {'first': 0, 'middle': 2, 'last': 3}[position]
    trace_before = []
    for i in range(n_before):
        lines.append(">>> print('b{}', T.append({}))".format(i, i + 1))
        trace_before.append(i + 1)
        if i % 2 == 0:
            lines.append('b{} None'.format(i))
    for s in setup:
        lines.append('>>> ' + s)
    default_state = None
    dtext = ', '.join(DIRECTIVE[f] for f in flags)
    if flags and carrier == 'block':
        lines.append('>>> # xdoctest: ' + dtext)
    if flags and carrier == 'inline':
        lines.append('>>> ' + rline + '  # xdoctest: ' + dtext)
    else:
        lines.append('>>> ' + rline)
    if flags and carrier == 'default':
        default_state = {STATEKEY[f][0]: STATEKEY[f][1] for f in flags}
    lines.extend(wl)
    if position != 'last':
        lines.append('>>> T.append(99)')
        if position == 'middle':
            lines.append(">>> print('after')")
            lines.append('after')
    doc = '\n'.join(lines) + '\n'
    return doc, default_state, trace_before, final, excname


def run(doc, default_state):
    from xdoctest import core
    trace = []
    with warnings.catch_warnings(record=True), contextlib.redirect_stdout(io.StringIO()):
        warnings.simplefilter('always')
        examples = list(core.parse_docstr_examples(doc, callname='c03', style='freeform'))
        if len(examples) != 1:
            raise Violation('not_collected:{}'.format(len(examples)), 'docstring yields {} doctests\n{}'.format(len(examples), doc))
        ex = examples[0]
        ex.mode = 'native'
        ex.global_namespace['T'] = trace
        if default_state:
            ex.config['default_runtime_state'] = dict(default_state)
        try:
            summary = ex.run(verbose=0, on_error='return')
        except BaseException as e:   # noqa
            if type(e).__name__ in ('Failed', 'XFailed') and not isinstance(e, Exception):
                summary = {'passed': False, 'failed': True, 'skipped': False, 'exc_info': (type(e), e, None), 'propagated': True}
            else:
                raise
    return summary, trace, ex


def check_case(case, ctx):
    built = build(case)
    if built is None:
        return 'n/a'
    doc, default_state, trace_before, final, excname = built
    source, form, flags = case['source'], case['form'], tuple(case['flags'])
    if form in ('ellipsis', 'wrongmsg', 'unqualified') and final is not None:
        # a drawn message can make the altered want coincide with the exact one (message '...'): then it *is* the exact form
        fb = 'ValueError: ' + (case['msg'] or 'm')
        if want_lines(form, final, fb) == want_lines('exact', final, fb):
            form = 'exact'
    exp = expected(source, form, flags)
    if exp is None:
        return 'unspecified'
    from xdoctest import checker
    summary, trace, ex = run(doc, default_state)
    cell = '{}/{}/{}'.format('raise' if source != 'noraise' else 'noraise', form, '+'.join(flags) or 'noflags')
    mid = [50] if source == 'noraise' else []
    after = [99] if case['position'] != 'last' else []
    if exp == 'pass':
        if not summary['passed']:
            ei = summary['exc_info']
            raise Violation('false_fail:' + cell,
                            'expected to pass (want form {!r}, flags {}) but {} with {!r}\n{}'.format(
                                form, flags, 'failed' if summary['failed'] else 'skipped', ei[1] if ei else None, doc))
        if trace != trace_before + mid + after:
            raise Violation('trace_after_expected_exception',
                            'statements executed {} expected {}\n{}'.format(trace, trace_before + mid + after, doc))
        return exp
    # failing rows
    if summary['passed'] or not summary['failed']:
        raise Violation('false_pass:' + cell,
                        'the exception must not be hidden (want form {!r}, flags {}) but the doctest {}\n{}'.format(
                            form, flags, 'passed' if summary['passed'] else 'was skipped', doc))
    et, ev, _ = summary['exc_info']
    if exp == 'fail_any_or_propagate':
        if trace != trace_before + mid:
            raise Violation('trace_after_failure', 'statements executed {} expected {}\n{}'.format(trace, trace_before + mid, doc))
        return exp
    if exp == 'fail_exc':
        if et.__name__ != excname or isinstance(ev, checker.GotWantException):
            raise Violation('wrong_exception_recorded:' + cell,
                            'expected the doctest to fail with {} but exc_info holds {!r}\n{}'.format(excname, ev, doc))
    elif exp == 'fail_gotwant':
        if not isinstance(ev, checker.GotWantException):
            raise Violation('wrong_exception_recorded:' + cell,
                            'expected a got/want failure but exc_info holds {!r}\n{}'.format(ev, doc))
    else:
        if not (isinstance(ev, checker.GotWantException) or et.__name__ == excname):
            raise Violation('wrong_exception_recorded:' + cell,
                            'expected a got/want failure or {} but exc_info holds {!r}\n{}'.format(excname, ev, doc))
    if trace != trace_before + mid:
        raise Violation('trace_after_failure',
                        'statements executed {} expected {} (nothing runs after the failure)\n{}'.format(
                            trace, trace_before + mid, doc))
    return exp


FIXED_MESSAGES = ['boom', 'two words: with colon']


def all_cells():
    return list(itertools.product(SOURCES, FORMS, FLAGSETS, CARRIERS, POSITIONS))


def table(ctx, shard, nshards, messages):
    cells = all_cells()[shard::nshards]
    for (source, form, flags, carrier, position) in cells:
        if not flags and carrier != 'block':
            continue
        for msg in messages:
            case = {'source': source, 'form': form, 'flags': list(flags), 'carrier': carrier,
                    'position': position, 'msg': msg}
            ctx.guard(_check, case)
    if shard == 0:
        ctx.exhaustive.append('full product {} sources x {} want forms x {} flag sets x {} carriers x {} positions, '
                              'messages {}'.format(len(SOURCES), len(FORMS), len(FLAGSETS), len(CARRIERS), len(POSITIONS), messages))


def _check(case, ctx):
    ctx.count()
    res = check_case(case, ctx)
    ctx.tag('result:' + str(res))
    if res in ('n/a', 'unspecified'):
        return
    ctx.tag('form:' + case['form'], 'source:' + case['source'])
    if not (case['source'] == 'noraise' and case['form'] == 'none'):
        ctx.nontriv((case['source'], case['form'], case['flags'], case['carrier'], case['position'], case['msg']),
                    {'case': case, 'doc': build(case)[0]})


WORD = st.text(alphabet='abcxyz019_-', min_size=1, max_size=6)
PIECE = st.one_of(WORD, st.sampled_from([':', ': ', '...', '.', ',', ' - ', '(', ')', '=', "'", '"', 'é', 'Traceback', '>>>']))


@st.composite
def message(draw):
    kind = draw(st.sampled_from(['words', 'empty', 'colon', 'dots', 'twolines', 'mixed']))
    if kind == 'empty':
        return ''
    if kind == 'words':
        return ' '.join(draw(st.lists(WORD, min_size=1, max_size=4)))
    if kind == 'colon':
        return draw(WORD) + ': ' + draw(WORD)
    if kind == 'dots':
        return draw(WORD) + ' ... ' + draw(WORD)
    if kind == 'twolines':
        return draw(WORD) + '\n' + draw(WORD) + ' ' + draw(WORD)
    parts = draw(st.lists(PIECE, min_size=1, max_size=6))
    text = ' '.join(parts).strip()
    return text or 'x'


case_strategy = st.fixed_dictionaries({
    'source': st.sampled_from(SOURCES), 'form': st.sampled_from(FORMS),
    'flags': st.sampled_from(FLAGSETS).map(list), 'carrier': st.sampled_from(CARRIERS),
    'position': st.sampled_from(POSITIONS), 'msg': message(),
})


def hyp_cells(ctx, n_examples):
    engine.hyp_run(ctx, case_strategy, _check, n_examples)


def selftest():
    fin, name = true_final('qualified', 'm', 1)
    assert fin == 'configparser.Error: m' and name == 'Error', fin
    fin, name = true_final('nomsg', '', 1)
    assert fin == 'ValueError'
    fin, name = true_final('helper', 'k', 1)
    assert fin == "KeyError: 'k'"
    assert true_final('noraise', '', 1) == (None, None)
    assert expected('builtin', 'prose', ()) == 'fail_exc'
    assert expected('builtin', 'wrongmsg', ('IED',)) == 'pass'
    assert expected('builtin', 'wrongtype', ('IED', '-ELL', 'IW')) == 'fail_any'
    assert want_lines('unqualified', 'configparser.Error: m', None) == [HEADER, 'Error: m']


def jobs(tier):
    out = [('table#%d' % s, 'table', dict(shard=s, nshards=16, messages=FIXED_MESSAGES)) for s in range(16)]
    per = 1000 if tier == 'quick' else 12000
    out += [('hyp#%d' % s, 'hyp_cells', dict(n_examples=per)) for s in range(16)]
    return out
