"""
C09 — Every failure is recorded and rendered; one bad doctest never aborts the run.

Product of failure kind x position of the failing part x shape of the doctest
around it x verbosity x runner.  Every case is a failure by construction: the
generator knows the exception class (or set of acceptable classes) and the
file line that must be named.
"""
import io
import os
import re
import contextlib

from vp import engine, sandbox
from vp.engine import HarnessError, Violation
from vp.gen.draw import composite

ID = 'C09'
DESIGN_REF = '6.9'
TECHNIQUE = ('enumerated product of failure kind x position x surrounding shape x verbosity x runner (+ Hypothesis-drawn '
             'combinations of several shapes); oracle = by-construction failure: summary marked failed without any exception '
             'escaping, report renders and names exception class and file line, neighbouring doctests still run and are tallied')
LEVEL_TEXT = ("26 failure kinds (wrong output of 1-3 lines; exception raised directly, on an inner line of a multi-line "
              "statement, in module code, in a helper function / lambda / class body / generator defined by an earlier part "
              "that is longer or shorter than the failing part, inside top-level await, chained with 'raise ... from', an "
              "exception group, an exception whose __str__ raises, RecursionError; SyntaxError raised at run time by eval / "
              "exec / compile; eight compile-only errors; a raising __repr__ with and without output, class defined in the "
              "module or in the doctest; a module that raises at import; three malformed REQUIRES directives, inline and block) "
              "x failing part first / middle / last x surrounding shapes (preceding statements, wants, multi-line statements, "
              "prose, following statements) x verbosity 0-3 plus wrong wants built from a token alphabet (blank-line markers, whitespace, quotes, ANSI codes, format characters) x runner (DocTest.run(on_error='return'), doctest_module on a module "
              "[good, bad, good], the CLI on a sample): run must return a summary marked failed and not passed, no exception of "
              "any kind may escape run or repr_failure, the report must contain 'REASON: <class>' with the by-construction "
              "class and the by-construction file line (and be printed by run itself at verbosity >= 2), doctest_module must "
              "report 1 failed / 2 passed with both good doctests executed, the CLI must exit 1 with a final '1 failed, 2 "
              "passed' line. The quick tier enumerates kind x position x verbosity x 2 runners once; the thorough tier adds "
              "Hypothesis-drawn shape combinations.")
LEVEL_ADDED = ('A further job runs functions without arguments and without doctests through the native runner by name and with zero-all (5 exception types x verbosity 0-3 x 5 module shapes): a raising function is a failed example (tally, exc_info, report, printed text), the run returns its summary.')
LEVEL_NOTE = ("Trusted: the generator's knowledge of the failing line (for exceptions cross-checked against CPython's own "
              "traceback as in C08). SystemExit / KeyboardInterrupt / GeneratorExit raised by doctest code are meant to "
              "propagate and are not failure kinds here (C12 checks they leave no residue). For a raising __repr__ either the "
              "wrapper class or the original class is accepted as the named type; for an import failure and malformed directives "
              "any class is accepted as long as the report names the class recorded in exc_info.")
RULE = ("every case fails by construction. Non-trivial: the failing part is not the first part, or the failure kind is not "
        "'exception raised directly'. Distinct = (kind, position, shape, verbosity, runner).")
ASSUMPTIONS = [
    "the failing line of an exception is the line CPython reports for the outermost frame inside the doctest",
    "for a compile-only error and for a malformed directive the failing line is the line of the offending statement",
]

# kind: (lines of the failing block, index of the failing line within the block (None: not asserted), accepted classes or None)
KINDS = {
    'want':            ([">>> print('real output')", 'expected something else'], 1, ['GotWantException']),
    'want_3lines':     ([">>> print('a'); print('b')", 'x', 'b', 'c'], 1, ['GotWantException']),
    'want_value':      ([">>> 6 * 7", '43'], 1, ['GotWantException']),
    'exc':             ([">>> raise KeyError('vp direct')"], 0, ['KeyError']),
    'exc_multi':       (['>>> z = (1 +', '...      1 / 0 +', '...      3)'], 1, ['ZeroDivisionError']),
    'modfunc':         ([">>> vp_module_boom(3)"], 0, ['ValueError']),
    'helper_long':     (['>>> def h(v):', '...     v = v + 1', '...     v = v + 2', '...     v = v + 3', '...     v = v + 4',
                         "...     raise IndexError('in helper')", ">>> print('mid')", 'mid', '>>> h(1)'], 8, ['IndexError']),
    'helper_short':    (['>>> def h(v):', "...     raise IndexError('in helper')", ">>> print('mid')", 'mid', '>>> w = (1,',
                         '...      2,', '...      h(1))'], None, ['IndexError']),
    'lambda_helper':   (['>>> bad = lambda: 1 / 0', ">>> print('mid')", 'mid', '>>> y = 1', '>>> y = 2', '>>> y = 3', '>>> bad()'], 6,
                        ['ZeroDivisionError']),
    'class_helper':    (['>>> class H:', '...     a = 1', '...     b = 2', '...     c = 3', '...     def m(self):',
                         "...         raise LookupError('in method')", ">>> print('mid')", 'mid', '>>> H().m()'], 8, ['LookupError']),
    'gen_helper':      (['>>> def g():', '...     yield 1', '...     yield 2', "...     raise OSError('in generator')", '>>> it = g()',
                         ">>> print('mid')", 'mid', '>>> list(it)'], 7, ['OSError']),
    'await_exc':       (['>>> import asyncio', '>>> async def co():', '...     await asyncio.sleep(0)', "...     raise KeyError('in coroutine')",
                         ">>> print('mid')", 'mid', '>>> await co()'], 6, ['KeyError']),
    'chained':         (['>>> try:', "...     raise KeyError('inner')", '... except KeyError as ex:',
                         "...     raise ValueError('outer') from ex"], None, ['ValueError']),
    'exc_group':       ([">>> raise ExceptionGroup('grp', [KeyError('a'), ValueError('b')])"], 0, ['ExceptionGroup']),
    'str_raises':      (['>>> class E(Exception):', '...     def __str__(self):', "...         raise ValueError('in str')", ">>> print('mid')",
                         'mid', '>>> raise E()'], 5, ['E']),
    'recursion':       (['>>> def rec():', '...     return rec()', ">>> print('mid')", 'mid', '>>> rec()'], 4, ['RecursionError']),
    'rt_syntax_eval':  ([">>> eval('1 +')"], 0, ['SyntaxError']),
    'rt_syntax_exec':  ([">>> exec('def broken(:')"], 0, ['SyntaxError']),
    'rt_syntax_compile': ([">>> compile('x = = 1', 'vpfile.py', 'exec')"], 0, ['SyntaxError']),
    'rt_indent':       ([">>> exec('if True:\\nx = 1')"], 0, ['IndentationError']),
    'c_return':        (['>>> return 5'], 0, ['SyntaxError']),
    'c_yield':         (['>>> yield 5'], 0, ['SyntaxError']),
    'c_break':         (['>>> break'], 0, ['SyntaxError']),
    'c_continue':      (['>>> continue'], 0, ['SyntaxError']),
    'c_nonlocal':      (['>>> nonlocal qq'], 0, ['SyntaxError']),
    'c_duparg':        (['>>> def dup(a, a):', '...     pass'], None, ['SyntaxError']),
    'c_future':        (['>>> from __future__ import nosuchfeature'], None, ['SyntaxError']),
    'c_star':          (['>>> *sa = [1]'], 0, ['SyntaxError']),
    'repr_print':      (['>>> class B:', '...     def __repr__(self):', "...         raise ZeroDivisionError('in repr')",
                         ">>> print('shown') or B()", 'wanted'], 3, ['ExtractGotReprException', 'ZeroDivisionError']),
    'repr_noprint':    (['>>> class B:', '...     def __repr__(self):', "...         raise ZeroDivisionError('in repr')", '>>> B()', 'wanted'],
                        3, ['ExtractGotReprException', 'ZeroDivisionError']),
    'repr_module_cls': ([">>> print('shown') or ModBadRepr()", 'wanted'], 0, ['ExtractGotReprException', 'ZeroDivisionError']),
    'repr_module_cls2': (['>>> ModBadRepr()', 'wanted'], 0, ['ExtractGotReprException', 'ZeroDivisionError']),
    'dir_unknown_tag': ([">>> q = 1  # xdoctest: +REQUIRES(nosuchkind:zzz)"], 0, None),
    'dir_env_ab':      ([">>> q = 1  # xdoctest: +REQUIRES(env:A:B)"], 0, None),
    'dir_block':       (['>>> # xdoctest: +REQUIRES(nosuchkind:zzz)', '>>> q = 1'], 0, None),
    'import_error':    ([">>> print('never runs')"], None, None),
}
# a helper of r lines whose last line raises, called by a one-line statement that has its own want of w lines
# (the raising line number inside the helper falls at or beyond the end of the failing part's source lines)
for _r in (2, 3, 4, 6):
    for _w in (1, 2, 3):
        _blk = ['>>> def hw(v):'] + ['...     v = v + {}'.format(j) for j in range(_r - 2)] + ["...     raise LookupError('in helper')",
                                                                                                  ">>> print('mid')", 'mid', '>>> hw(1)']
        _idx = len(_blk) - 1
        _blk += ['expected line {}'.format(j) for j in range(_w)]
        KINDS['helper_want_r{}_w{}'.format(_r, _w)] = (_blk, _idx, ['LookupError'])

LEVEL_TEXT = LEVEL_TEXT.replace('26 failure kinds', '{} failure kinds'.format(len(KINDS))).replace(
    'that is longer or shorter than the failing part,', 'that is longer or shorter than the failing part (the failing call with and without a want of its own),')

PRE = {
    'stmt': ['>>> a{k} = {k}'],
    'stmt_want': [">>> print('pre{k}')", 'pre{k}'],
    'multi': ['>>> m{k} = [{k},', '...       2,', '...       3]'],
    'multi_want': [">>> print('x{k}',", "...       'y')", 'x{k} y'],
    'prose': ['', 'Some prose between the groups.', ''],
    'def': ['>>> def pre{k}(v):', '...     return v', '>>> pre{k}(1)', '1'],
    'warn': ['>>> import warnings', ">>> warnings.warn('vp: a warning before the failure {k}')"],
}
POST = {
    'stmt': ['>>> p{k} = {k}'],
    'stmt_want': [">>> print('post{k}')", 'post{k}'],
}
POSITIONS = {'first': ([], ['stmt_want']), 'middle': (['stmt_want', 'multi'], ['stmt']), 'last': (['multi_want', 'stmt', 'def'], []),
             'after_warning': (['warn', 'stmt_want'], [])}


FUZZ_TOKENS = ['a', 'b c', '<BLANKLINE>', ' ', '  ', '\t', "'q'", 'u"x"', '...', '.', '\x1b[31mred\x1b[0m', '0', 'é', '{}', '%s', '\\']


def fuzz_block(case):
    """a printing statement with an arbitrary (writable) want; whether it fails is decided by running it"""
    f = case['fuzz']
    want = [ln for ln in f['want']]
    stmt = f.get('stmt', 'print')
    if stmt == 'print':
        return [">>> print({!r})".format(f['got'])] + want, 1, None
    if stmt == 'value':
        # an object whose repr is the fuzzed text
        return ['>>> class R:', '...     def __init__(self, t):', '...         self.t = t', '...     def __repr__(self):',
                '...         return self.t', '>>> R({!r})'.format(f['got'])] + want, None, None
    if stmt == 'raise':
        return ['>>> raise ValueError({!r})'.format(f['got'])] + want, None, None
    if stmt == 'raise_tb':
        return ['>>> raise ValueError({!r})'.format(f['got']), 'Traceback (most recent call last):'] + want, None, None
    raise KeyError(stmt)


def build_bad(case):
    """-> (doctest lines, index of the failing line or None)"""
    block, rel, classes = fuzz_block(case) if case['kind'] == 'want_fuzz' else KINDS[case['kind']]
    lines = []
    k = 0
    for name in case.get('pre', []):
        k += 1
        lines += [ln.format(k=k) for ln in PRE[name]]
    start = len(lines)
    lines += block
    for name in case.get('post', []):
        k += 1
        lines += [ln.format(k=k) for ln in POST[name]]
    return lines, (start + rel if rel is not None else None)


def build_module(case):
    """-> (lines, file line of the failure or None)"""
    L = ['import os', '', '', 'def vp_module_boom(x):', "    raise ValueError('module code fails {}'.format(x))", '', '',
         'class ModBadRepr(object):', '    def __repr__(self):', "        raise ZeroDivisionError('in module repr')", '', '',
         'def _vp_trace(ident):', "    p = os.environ.get('VP_TRACE')", '    if p:', "        with open(p, 'a') as fh:",
         "            fh.write(ident + '\\n')", '', '']
    if case['kind'] == 'import_error':
        L += ["raise RuntimeError('vp: the module under test fails at import')", '']

    def func(name, body):
        L.append('def {}():'.format(name))
        L.append('    r"""')
        L.append('    Summary of {}.'.format(name))
        L.append('')
        L.append('    Example:')
        first = len(L) + 1
        for ln in body:
            L.append(('        ' + ln) if ln else '')
        L.append('    """')
        L.extend(['', ''])
        return first
    func('good1', [">>> _vp_trace('good1')", ">>> print('ok1')", 'ok1'])
    bad_lines, idx = build_bad(case)
    first = func('bad', bad_lines)
    func('good2', [">>> _vp_trace('good2')", ">>> print('ok2')", 'ok2'])
    for j, xk in enumerate(case.get('extra_bad', [])):
        # further failing doctests, each followed by a good one: all of them must still run and be reported
        func('xbad{}'.format(j), KINDS[xk][0])
        func('xgood{}'.format(j), [">>> _vp_trace('xgood{}')".format(j), ">>> print('okx')", 'okx'])
    return L, (first + idx if idx is not None else None)


def ref_check(lines, case, fail_line):
    """cross-check the generator's failing line with CPython for the kinds that raise at run time"""
    from vp.props import c08
    kind = case['kind']
    if fail_line is None or kind.startswith(('want', 'c_', 'repr', 'dir_', 'import')) or kind in ('str_raises',):
        return
    a = [i for i, ln in enumerate(lines) if ln.strip() == 'Summary of bad.'][0] + 3
    b = [i for i, ln in enumerate(lines) if ln.strip() == 'def good2():'][0]
    import warnings
    with warnings.catch_warnings():
        warnings.simplefilter('ignore')
        ln, exc = c08.ref_fail_line(lines, {'spans': [[a + 1, b]]})
    if ln != fail_line:
        raise HarnessError('generator says line {} but CPython reports {} for kind {}'.format(fail_line, ln, kind))


def _numbered(lines):
    return '\n'.join('{:3d} {}'.format(i + 1, ln) for i, ln in enumerate(lines))


ZERO_ARG_EXC = ['KeyError', 'ValueError', 'ZeroDivisionError', 'RuntimeError', 'AssertionError']


def check_zero_arg_case(case, ctx):
    """the native runner also runs functions without arguments and without doctests when they are named ('zero-arg' mode): a
    function that raises is a failed example like any other - recorded, rendered, the run returns its summary"""
    import xdoctest
    exc = ZERO_ARG_EXC[case['exc'] % len(ZERO_ARG_EXC)]
    verbose = case.get('verbose', 0)
    n_funcs = case.get('n_funcs', 1)
    lines = ['import os', '', '']
    for i in range(n_funcs):
        lines += ['def zfunc{}():'.format(i), '    x = {}'.format(i), "    raise {}('zero arg {}')".format(exc, i), '', '']
    if case.get('with_doctest'):
        lines += ['def documented(a=1):', '    \"\"\"', '    Example:', "        >>> print('fine')", '        fine', '    \"\"\"', '', '']
    name = sandbox.unique_name('vpc09z')
    command = 'zfunc0' if not case.get('zero_all') else 'zero-all'
    with sandbox.scratch('c09z') as d:
        path = os.path.join(d, name + '.py')
        with open(path, 'w') as f:
            f.write('\n'.join(lines) + '\n')
        raised, rs = None, None
        try:
            with sandbox.quiet() as (out, err, wl):
                try:
                    rs = xdoctest.doctest_module(path, command=command, argv=[], verbose=verbose)
                except BaseException as ex:   # noqa
                    raised = ex
            text = out.getvalue()
        finally:
            sandbox.purge_modules([name])
    if ctx is not None:
        ctx.count()
        ctx.tag('zero_arg', 'zero_arg:' + command, 'verbose:{}'.format(verbose))
        ctx.nontriv(('zero', exc, verbose, n_funcs, command, bool(case.get('with_doctest'))), None)
    where = 'command={!r} verbose={}\n{}'.format(command, verbose, '\n'.join(lines))
    if raised is not None:
        raise Violation('zero_arg:run_raises:' + type(raised).__name__, 'doctest_module raised {!r} instead of returning a summary\n{}'.format(raised, where))
    exp_failed = 1 if command == 'zfunc0' else n_funcs
    if rs['n_failed'] != exp_failed or len(rs['failed']) != exp_failed:
        raise Violation('zero_arg:tally', 'n_failed = {} failed = {} expected {}\n{}'.format(
            rs['n_failed'], [e.callname for e in rs['failed']], exp_failed, where))
    for e in rs['failed']:
        if e.exc_info is None or e.exc_info[0].__name__ != exc:
            raise Violation('zero_arg:exc_info', 'the failed example {} carries {!r} expected {}\n{}'.format(e.callname, e.exc_info, exc, where))
        with sandbox.quiet():
            rep = '\n'.join(e.repr_failure())
        if exc not in rep or 'zero arg' not in rep:
            raise Violation('zero_arg:report', 'the report of {} does not name the exception:\n{}\n{}'.format(e.callname, rep[-800:], where))
    if verbose >= 2 and exc not in text:
        raise Violation('zero_arg:printed', 'nothing about the {} is printed at verbose={}\n{}\n{}'.format(exc, verbose, text[-600:], where))
    if verbose == 1 and 'zfunc0' not in text:
        raise Violation('zero_arg:printed', 'the failed example is not named at verbose=1\n{}\n{}'.format(text[-600:], where))


def zero_arg(ctx):
    for exc in range(len(ZERO_ARG_EXC)):
        for verbose in (0, 1, 2, 3):
            for n_funcs, zero_all, with_doctest in ((1, False, False), (1, True, False), (3, True, False), (2, False, True), (1, False, True)):
                ctx.guard(check_case, {'zero_arg': True, 'exc': exc, 'verbose': verbose, 'n_funcs': n_funcs, 'zero_all': zero_all,
                                       'with_doctest': with_doctest})
    ctx.exhaustive.append('zero-arg functions: exception (5) x verbosity (4) x (one named / zero-all with 1 or 3 / next to a documented function)')


def check_case(case, ctx):
    if case.get('zero_arg'):
        return check_zero_arg_case(case, ctx)
    from xdoctest import core
    import xdoctest
    lines, fail_line = build_module(case)
    kind = case['kind']
    verbose = case.get('verbose', 0)
    runner = case.get('runner', 'run')
    classes = None if kind == 'want_fuzz' else KINDS[kind][2]
    ref_check(lines, case, fail_line)
    name = sandbox.unique_name('vpc09')
    with sandbox.scratch('c09') as d:
        path = os.path.join(d, name + '.py')
        with open(path, 'w') as f:
            f.write('\n'.join(lines) + '\n')
        trace = os.path.join(d, 'trace.txt')
        old = os.environ.get('VP_TRACE')
        os.environ['VP_TRACE'] = trace
        where = 'kind={} verbose={} runner={}\n{}'.format(kind, verbose, runner, _numbered(lines))
        if ctx is not None:
            ctx.count()
            ctx.tag('kind:' + kind, 'runner:' + runner, 'verbose:{}'.format(verbose))
            if case.get('pre') or kind != 'exc':
                ctx.nontriv((kind, tuple(case.get('pre', [])), tuple(case.get('post', [])), verbose, runner),
                            {'kind': kind, 'pre': case.get('pre'), 'post': case.get('post'), 'verbose': verbose, 'runner': runner,
                             'failing_file_line': fail_line, 'bad_doctest': build_bad(case)[0]})
        try:
            if runner == 'run':
                with sandbox.quiet():
                    exs = list(core.parse_doctestables(path, style='google', analysis='static'))
                bad = [e for e in exs if e.callname == 'bad']
                if len(bad) != 1:
                    raise HarnessError('the bad doctest was not collected\n' + where)
                ex = bad[0]
                out = io.StringIO()
                try:
                    with sandbox.quiet(), contextlib.redirect_stdout(out):
                        summary = ex.run(on_error='return', verbose=verbose)
                except Exception as e:   # noqa
                    raise Violation('run_raises:{}:{}'.format(kind, type(e).__name__),
                                    "run(on_error='return') raised {}: {}\n{}".format(type(e).__name__, _safe(e), where),
                                    detail=_tb(e))
                if kind == 'want_fuzz' and summary.get('passed'):
                    if ctx is not None:
                        ctx.notes['want_fuzz_matched_discarded'] += 1
                    return
                if not summary.get('failed') or summary.get('passed'):
                    raise Violation('not_marked_failed:' + kind, 'summary is {}\n{}'.format(
                        {k: summary.get(k) for k in ('passed', 'failed', 'skipped')}, where))
                _check_report(ex, kind, classes, fail_line, where, out.getvalue() if verbose >= 2 else None)
            elif runner == 'module':
                try:
                    with sandbox.quiet():
                        rs = xdoctest.doctest_module(path, command='all', argv=[], style='google', verbose=verbose)
                except Exception as e:   # noqa
                    raise Violation('module_run_raises:{}:{}'.format(kind, type(e).__name__),
                                    'doctest_module raised {}: {}\n{}'.format(type(e).__name__, _safe(e), where), detail=_tb(e))
                got_trace = sorted(_read(trace))
                nx = len(case.get('extra_bad', []))
                if kind == 'import_error':
                    exp = (3 + 2 * nx, 0, 3 + 2 * nx, [])
                else:
                    exp = (3 + 2 * nx, 2 + nx, 1 + nx, sorted(['good1', 'good2'] + ['xgood{}'.format(j) for j in range(nx)]))
                got = (rs.get('n_total'), rs.get('n_passed'), rs.get('n_failed'), got_trace)
                if got != exp:
                    raise Violation('module_tally:' + kind, '(n_total, n_passed, n_failed, executed) = {} expected {}\n{}'.format(
                        got, exp, where))
                failed = sorted(e.callname for e in rs['failed'])
                xb = ['xbad{}'.format(j) for j in range(nx)]
                xg = ['xgood{}'.format(j) for j in range(nx)]
                if failed != (sorted(['bad'] + xb) if kind != 'import_error' else sorted(['bad', 'good1', 'good2'] + xb + xg)):
                    raise Violation('module_failed_list:' + kind, 'failed list {}\n{}'.format(failed, where))
                for e in rs['failed']:
                    if e.callname == 'bad':
                        _check_report(e, kind, classes, fail_line, where, None)
            elif runner == 'named':
                # only the bad doctest is selected: the native runner still has to return a summary
                try:
                    with sandbox.quiet():
                        rs = xdoctest.doctest_module(path, command='bad:0', argv=[], style='google', verbose=verbose)
                except Exception as e:   # noqa
                    raise Violation('named_run_raises:{}:{}'.format(kind, type(e).__name__),
                                    "doctest_module(command='bad:0') raised {}: {}\n{}".format(type(e).__name__, _safe(e), where),
                                    detail=_tb(e))
                got = (rs.get('n_total'), rs.get('n_passed'), rs.get('n_failed'))
                if got != (1, 0, 1):
                    raise Violation('named_tally:' + kind, '(n_total, n_passed, n_failed) = {} expected (1, 0, 1)\n{}'.format(got, where))
                _read(trace)
            elif runner == 'cli':
                cwd = os.path.join(d, 'cwd')
                os.makedirs(cwd)
                import subprocess
                env = sandbox.clean_env()
                env['VP_TRACE'] = trace
                p = subprocess.run(['/venv/bin/python', '-m', 'xdoctest', path, 'all', '--style=google', '--verbose={}'.format(max(1, verbose))],
                                   cwd=cwd, env=env, stdout=subprocess.PIPE, stderr=subprocess.PIPE, text=True, timeout=300)
                got_trace = sorted(_read(trace))
                nx = len(case.get('extra_bad', []))
                exp_line = '{} failed'.format(3 + 2 * nx) if kind == 'import_error' else '{} failed, {} passed'.format(1 + nx, 2 + nx)
                m = re.findall(r'(?m)^=== (.*) in [0-9.]+ seconds ===\s*$', p.stdout)
                if p.returncode != 1 or len(m) != 1 or not m[0].startswith(exp_line):
                    raise Violation('cli:' + kind, 'CLI exit {} summary {} expected exit 1 and {!r}\n--- stdout\n{}\n--- stderr\n{}\n{}'.format(
                        p.returncode, m, exp_line, p.stdout[-1500:], p.stderr[-1500:], where))
                if kind != 'import_error' and got_trace != sorted(['good1', 'good2'] + ['xgood{}'.format(j) for j in range(nx)]):
                    raise Violation('cli_executed:' + kind, 'CLI executed {}\n{}'.format(got_trace, where))
        finally:
            if old is None:
                os.environ.pop('VP_TRACE', None)
            else:
                os.environ['VP_TRACE'] = old
            sandbox.purge_modules([name])


def _safe(e):
    try:
        return str(e)[:300]
    except Exception as ex2:   # noqa  (an exception whose __str__ raises is one of the generated kinds)
        return '<str() of the exception raised {}>'.format(type(ex2).__name__)


def _tb(e):
    import traceback
    try:
        return ''.join(traceback.format_exception(type(e), e, e.__traceback__))[-3000:]
    except Exception:   # noqa
        return ''.join(traceback.format_tb(e.__traceback__))[-3000:]


def _read(path):
    if not os.path.exists(path):
        return []
    with open(path) as f:
        out = [ln.strip() for ln in f if ln.strip()]
    os.remove(path)
    return out


def _check_report(ex, kind, classes, fail_line, where, printed):
    if ex.exc_info is None:
        raise Violation('no_exc_info:' + kind, 'the failed doctest has no exc_info\n' + where)
    try:
        with sandbox.quiet():
            rep = ex.repr_failure()
    except Exception as e:   # noqa
        raise Violation('repr_failure_raises:{}:{}'.format(kind, type(e).__name__),
                        'repr_failure() raised {}: {}\n{}'.format(type(e).__name__, _safe(e), where), detail=_tb(e))
    if not isinstance(rep, list) or not all(isinstance(x, str) for x in rep):
        raise Violation('repr_failure_type:' + kind, 'repr_failure() returned {!r}'.format(type(rep)))
    text = '\n'.join(rep)
    got_cls = ex.exc_info[0].__name__
    m = re.search(r'REASON: (\w+)', text)
    if not m or m.group(1) != got_cls:
        raise Violation('report_reason:' + kind, 'report names {!r} but exc_info holds {}\n{}\n{}'.format(
            m and m.group(1), got_cls, text[:1200], where))
    if classes is not None and got_cls not in classes:
        raise Violation('wrong_class:' + kind, 'recorded exception class {} expected one of {}\n{}'.format(got_cls, classes, where))
    if fail_line is not None:
        m = re.search(r'File "[^"]*", line (\d+),', text)
        got_line = ex.failed_lineno()
        if got_line != fail_line or not m or int(m.group(1)) != fail_line:
            raise Violation('report_line:' + kind, 'failed_lineno() = {}, report says line {}, by construction the failing line is {}\n{}'.format(
                got_line, m and m.group(1), fail_line, where))
    if printed is not None and ('REASON: ' + got_cls) not in printed:
        raise Violation('not_printed:' + kind, 'with verbose >= 2 run() did not print the failure report\n--- printed\n{}\n{}'.format(
            printed[-1500:], where))


def product(ctx, shard, nshards, cli_every):
    n = 0
    for kind in KINDS:
        for pos, (pre, post) in POSITIONS.items():
            for verbose in (0, 1, 2, 3):
                for runner in ('run', 'module', 'named'):
                    n += 1
                    if n % nshards != shard:
                        continue
                    case = {'kind': kind, 'pre': pre, 'post': post, 'verbose': verbose, 'runner': runner}
                    if runner == 'module' and verbose % 2:
                        case['extra_bad'] = ['exc', 'want', 'c_return', 'helper_long']
                    ctx.guard(check_case, case)
            n += 1
            if n % nshards == shard and (cli_every == 1 or pos == 'middle'):
                ctx.guard(check_case, {'kind': kind, 'pre': pre, 'post': post, 'verbose': 1, 'runner': 'cli'})
    if shard == 0:
        ctx.exhaustive.append('failure kind ({}) x position (4) x verbosity (4) x runner (run, module with 0 or 4 further failing doctests, named) + one CLI run per kind'.format(len(KINDS)))


@composite
def case_strategy(D):
    return {'kind': D.choice(sorted(KINDS)), 'pre': [D.choice(sorted(PRE)) for _ in range(D.int(0, 4))],
            'post': [D.choice(sorted(POST)) for _ in range(D.int(0, 2))], 'verbose': D.choice([0, 1, 2, 3]),
            'runner': D.weighted([('run', 6), ('module', 3), ('named', 2), ('cli', 1)]),
            'extra_bad': [D.choice([k for k in sorted(KINDS) if k != 'import_error']) for _ in range(D.int(0, 4))]}


@composite
def fuzz_strategy(D):
    def text(lo, hi):
        return ''.join(D.choice(FUZZ_TOKENS) for _ in range(D.int(lo, hi)))
    got = '\n'.join(text(0, 4) for _ in range(D.int(1, 3)))
    want = []
    for _ in range(D.int(1, 4)):
        ln = text(1, 4)
        if not ln.strip() or ln.lstrip().startswith(('>>>', '...')):
            ln = 'w' + ln          # a want line is never blank and never looks like source
        want.append(ln)
    return {'kind': 'want_fuzz', 'fuzz': {'got': got, 'want': want, 'stmt': D.choice(['print', 'print', 'value', 'raise', 'raise_tb'])}, 'pre': [D.choice(sorted(PRE)) for _ in range(D.int(0, 2))],
            'post': [], 'verbose': D.choice([0, 1, 2, 3]), 'runner': 'run'}


def hyp_shapes(ctx, n_examples):
    engine.hyp_run(ctx, case_strategy(), check_case, n_examples)


def hyp_fuzz(ctx, n_examples):
    engine.hyp_run(ctx, fuzz_strategy(), check_case, n_examples)


def health(tot, tier):
    c = tot['classes']
    for k in list(KINDS) + ['want_fuzz']:
        if c.get('kind:' + k, 0) < 1:
            return 'kind {} was never run'.format(k)
    for need in ('runner:run', 'runner:module', 'runner:named', 'runner:cli'):
        if c.get(need, 0) < 1:
            return 'class {} was never generated'.format(need)
    return None


def selftest():
    for kind in KINDS:
        for pos, (pre, post) in POSITIONS.items():
            case = {'kind': kind, 'pre': pre, 'post': post}
            lines, fl = build_module(case)
            if kind != 'import_error':
                compile('\n'.join(lines), 'gen', 'exec')
            ref_check(lines, case, fl)
            if fl is not None:
                block, rel, _ = KINDS[kind]
                assert lines[fl - 1].strip() == block[rel].strip(), (kind, lines[fl - 1])


def jobs(tier):
    quick = tier == 'quick'
    out = [('product#%d' % s, 'product', dict(shard=s, nshards=12, cli_every=0 if quick else 1)) for s in range(12)]
    out += [('hyp_shapes#%d' % s, 'hyp_shapes', dict(n_examples=400 if quick else 6000)) for s in range(4)]
    out += [('hyp_fuzz#%d' % s, 'hyp_fuzz', dict(n_examples=600 if quick else 10000)) for s in range(4)]
    out += [('zero_arg', 'zero_arg', {})]
    return out
