"""
C17 — Module name <-> path resolution agrees with Python's import system.

Generated directory trees (G4) are written to a scratch root; every dotted
name that exists in the tree in any sense, plus absent names, is resolved by
xdoctest and by a reference built on ``importlib.machinery.FileFinder`` (the
interpreter's own per-directory finder), walking the name part by part.
"""
import importlib
import importlib.machinery as mach
import importlib.util
import os
import sys

from vp import engine, sandbox
from vp.engine import Violation
from vp.gen import trees
from vp.gen.draw import composite

ID = 'C17'
DESIGN_REF = '6.17'
TECHNIQUE = ('Hypothesis-generated package trees x every dotted name present or absent in them; differential against '
             'importlib.machinery.FileFinder resolved part by part; round trips name -> path -> name and split/join; '
             'sys.path snapshot around import_module_from_path')
LEVEL_TEXT = ("Generated directory trees (nested packages, modules, __main__.py files, directories without __init__.py at the "
              "top, in the middle of a chain and as a leaf, module + package and module + plain directory of one name, "
              "extension-module files next to or instead of a source file, names with underscores and digits; optionally a "
              "second search root with disjoint names before or after; optionally the search root is itself a package directory; "
              "optionally the module's directory is already on sys.path when it is imported by path) and every dotted name that exists in them in any sense "
              "plus typos, modules used as packages and names below plain directories: modname_to_modpath must return what "
              "the interpreter's FileFinder resolves (or None exactly when it finds nothing), in both hide_init modes; the "
              "path must convert back to the name; split_modpath must give (root, relative path); importing importable leaves by path (index 0 and -1; modules that import cleanly, import a sibling "
              "or raise) must return the module of that name and file and leave sys.path the same object with the same "
              "entries. Randomised differential exploration with shrinking.")
LEVEL_ADDED = ("Also generated: a second search directory holding the very same names (after an earlier lookup with the later directory alone: the order of the search path decides), and packages whose __init__ re-exports a function named like the submodule that defines it (a path import must still return the module). A fifth of the cases name the search directory as '' (after a chdir); with index=0 and a mirrored second directory on sys.path the file that was asked for must win.")
LEVEL_NOTE = ("Trusted: importlib.machinery.FileFinder with CPython's loader order as the interpreter's view. A directory "
              "without __init__.py (PEP 420 namespace portion) counts as 'nothing', because regular packages are what "
              "modname_to_modpath documents. Not generated: '__init__' as an explicit name part, two roots holding the same "
              "top-level name, file names with dots other than the platform's real extension suffixes.")
RULE = ("trees of 1-25 files, depth <= 4, ~30 names each. Non-trivial name: >= 2 components and the tree has a directory "
        "without __init__.py or a module/package (or source/extension) name clash on the path of that name. Distinct = "
        "(tree, name).")
ASSUMPTIONS = [
    "a spec without a loader (namespace portion) is treated as 'the interpreter finds nothing there'",
    "the scratch root has no __init__.py in any ancestor directory",
]
EXT = mach.EXTENSION_SUFFIXES[0]


# ---------------------------------------------------------------------------
# reference

def ref_resolve(roots, name):
    parts = name.split('.')
    search = list(roots)
    spec = None
    for i, part in enumerate(parts):
        spec = None
        for d in search:
            finder = mach.FileFinder(d, (mach.ExtensionFileLoader, mach.EXTENSION_SUFFIXES),
                                     (mach.SourceFileLoader, mach.SOURCE_SUFFIXES))
            s = finder.find_spec(part)
            if s is not None and s.loader is not None:
                spec = s
                break
        if spec is None:
            return None
        if i < len(parts) - 1:
            if spec.submodule_search_locations is None:
                return None
            search = list(spec.submodule_search_locations)
    return spec


# ---------------------------------------------------------------------------
# generator

@composite
def tree_case(D):
    tree = trees.gen_tree(D, 't', max_depth=D.int(1, 3), max_children=D.int(1, 4))
    files = list(tree['files'])
    dirs = list(tree['dirs'])
    # extension-module files: alone, or next to a source file of the same name
    for _ in range(D.int(0, 2)):
        pkgs = [''] + [rel for rel, _h in dirs]
        where = D.choice(pkgs)
        kind = D.choice(['ext_alone', 'ext_and_py', 'ext_short'])
        base = D.choice(['cext', 'speedups_1'])
        if not where:
            base = base + '_t'
        stem = (where + '/' + base) if where else base
        suffix = EXT if kind != 'ext_short' else mach.EXTENSION_SUFFIXES[-1]
        fn = stem + suffix
        if fn not in files:
            files.append(fn)
        if kind == 'ext_and_py' and stem + '.py' not in files:
            files.append(stem + '.py')
    pyfiles = [f for f in files if f.endswith('.py')]
    raising = [f for f in pyfiles if D.chance(1, 8)]
    sibling = []
    for f in pyfiles:
        if f in raising or not D.chance(1, 5):
            continue
        d = os.path.dirname(f)
        sibs = [g for g in pyfiles if os.path.dirname(g) == d and g != f and g not in raising and
                not g.endswith(('__main__.py',)) and d]
        if sibs and trees.is_package_dir({'dirs': dirs}, d):
            sibling.append([f, os.path.basename(D.choice(sibs))[:-3]])
    second = D.choice(['none', 'none', 'before', 'after'])
    # packages whose __init__ re-exports a function named like the module that defines it (from .solve import solve): the
    # package attribute of that name is then the function, the module is still what a path import has to return
    reexport = []
    sib_files = {f for f, _s in sibling}
    for rel, has_init in dirs:
        init = rel + '/__init__.py'
        if not has_init or init in raising or init in sib_files or not D.chance(1, 3):
            continue
        stems = [os.path.basename(f)[:-3] for f in pyfiles if os.path.dirname(f) == rel and f not in raising and f not in sib_files]
        stems = [s_ for s_ in stems if s_ not in ('__init__', '__main__') and not any(r == rel + '/' + s_ for r, _h in dirs) and
                 not any(rel + '/' + s_ + e in files for e in mach.EXTENSION_SUFFIXES)]
        if stems:
            reexport.append([init, D.choice(stems)])
    return {'tree': {'top': 't', 'dirs': dirs, 'files': files}, 'raising': raising, 'sibling': sibling, 'reexport': reexport,
            'shadowed_root': second != 'none' and D.chance(1, 2), 'cwd_entry': D.chance(1, 5),
            'second_root': second, 'index': D.choice([-1, 0]), 'root_has_init': D.chance(1, 6), 'root_on_path': D.chance(1, 4),
            'symlink': D.chance(1, 4)}


def candidate_names(tree):
    names = set()
    for rel, _h in tree['dirs']:
        names.add(rel.replace('/', '.'))
    for rel in tree['files']:
        stem = rel
        for suf in sorted(mach.EXTENSION_SUFFIXES + ['.py'], key=len, reverse=True):
            if stem.endswith(suf):
                stem = stem[:-len(suf)]
                break
        names.add(stem.replace('/', '.'))
    present = sorted(names)
    absent = set()
    for n in present:
        absent.add(n + 'x')                   # typo
        absent.add(n + '.nothing_here')       # module used as package / missing child
        if '.' in n:
            head, tail = n.rsplit('.', 1)
            absent.add(head + '.__main__')
            absent.add(head + '_.' + tail)
        else:
            absent.add(n + '.__main__')
    absent -= names
    return present, sorted(a for a in absent if '__init__' not in a.split('.'))


# ---------------------------------------------------------------------------

def _same(a, b):
    # paths are compared as written (symbolic links not resolved): the alias is what the interpreter imports under
    return os.path.abspath(a) == os.path.abspath(b)


def check_case(case, ctx):
    from xdoctest import utils
    from xdoctest.utils import util_import
    tree = case['tree']
    with sandbox.scratch('c17') as base:
        uniq = sandbox.unique_name('r')
        root = os.path.join(base, uniq, 'root')
        other = os.path.join(base, uniq, 'other')
        os.makedirs(root)
        os.makedirs(other)
        raising = set(case.get('raising', []))
        sibling = {f: s for f, s in case.get('sibling', [])}

        reexport = {f: s_ for f, s_ in case.get('reexport', [])}
        exported = {os.path.dirname(f) + '/' + s_ + '.py': s_ for f, s_ in reexport.items()}

        def content(rel):
            if rel in raising:
                return "MARK = {!r}\nraise RuntimeError('import of {} fails')\n".format(rel, rel)
            if rel in sibling:
                return "MARK = {!r}\nfrom . import {} as _sib\n".format(rel, sibling[rel])
            if rel in reexport:
                return "MARK = {!r}\nfrom .{} import {}\n".format(rel, reexport[rel], reexport[rel])
            if rel in exported:
                return 'MARK = {!r}\n\n\ndef {}():\n    return MARK\n'.format(rel, exported[rel])
            return 'MARK = {!r}\n'.format(rel)
        trees.write_tree(tree, root, content)
        if reexport and ctx is not None:
            ctx.tag('tree:init_reexports_name_of_submodule')
        root_has_init = bool(case.get('root_has_init'))
        if root_has_init:
            # the search directory is itself a package directory (a tests/ folder with __init__.py on sys.path): the
            # interpreter does not care; only the resolution clause is asserted for such roots
            with open(os.path.join(root, '__init__.py'), 'w') as f:
                f.write('')
        # the second root only holds names disjoint from the first
        with open(os.path.join(other, 'unrelated_mod_zz.py'), 'w') as f:
            f.write('MARK = 0\n')
        os.makedirs(os.path.join(other, 'unrelated_pkg_zz'))
        with open(os.path.join(other, 'unrelated_pkg_zz', '__init__.py'), 'w') as f:
            f.write('')
        roots = [root]
        if case.get('second_root') == 'before':
            roots = [other, root]
        elif case.get('second_root') == 'after':
            roots = [root, other]
        present, absent = candidate_names(tree)
        if case.get('shadowed_root') and len(roots) == 2 and not case.get('symlink'):
            # the second search directory holds the very same names: the order of the search path decides, whatever was
            # resolved before (every name is first looked up with the later directory alone)
            trees.write_tree(tree, other, lambda rel: 'MARK = {!r}\n'.format('other/' + rel))
            with sandbox.quiet():
                for name in present:
                    utils.modname_to_modpath(name, hide_init=False, sys_path=[roots[-1]])
            if ctx is not None:
                ctx.tag('tree:same_names_in_two_roots')
        alias_names = []
        if case.get('symlink'):
            # a package (or module file) that is reached through a symbolic link under another name: for the interpreter
            # the alias is what counts (site/corelib -> ../store/corelib_v2 is imported as corelib)
            pkgs = [r for r, h in tree['dirs'] if h and '/' not in r]
            mods = [f for f in tree['files'] if f.endswith('.py') and '/' not in f]
            store = os.path.join(base, uniq, 'store')
            os.makedirs(store, exist_ok=True)
            if pkgs:
                src = os.path.join(root, pkgs[0])
                moved = os.path.join(store, pkgs[0] + '_v2')
                os.rename(src, moved)
                os.symlink(moved, src)              # the original name is now an alias of store/<name>_v2
                alias_names = [n for n in present if n == pkgs[0] or n.startswith(pkgs[0] + '.')]
            elif mods:
                src = os.path.join(root, mods[0])
                moved = os.path.join(store, 'impl_' + mods[0])
                os.rename(src, moved)
                os.symlink(moved, src)
                alias_names = [mods[0][:-3]]
            if ctx is not None and alias_names:
                ctx.tag('tree:symlinked_member')
        has_plain = any(not h for _r, h in tree['dirs'])
        n_checked = 0
        # the search directory may be named the way `python -c` / the REPL name it: '' (the current directory)
        call_roots = roots
        old_cwd = None
        if case.get('cwd_entry'):
            old_cwd = os.getcwd()
            os.chdir(root)
            call_roots = ['' if r == root else r for r in roots]
            if ctx is not None:
                ctx.tag('tree:root_named_as_empty_string')
        try:
            self_check_names(case, ctx, tree, roots, call_roots, present, absent, has_plain, root_has_init, utils)
        finally:
            if old_cwd is not None:
                os.chdir(old_cwd)
        if root_has_init:
            if ctx is not None:
                ctx.tag('root_is_package_dir')
            return
        _after_names(case, ctx, tree, root, roots, utils)


def self_check_names(case, ctx, tree, roots, call_roots, present, absent, has_plain, root_has_init, utils):
    if True:
        n_checked = 0
        for name in present + absent:
            spec = ref_resolve(roots, name)
            with sandbox.quiet():
                got_f = utils.modname_to_modpath(name, hide_init=False, sys_path=call_roots)
                got_d = utils.modname_to_modpath(name, hide_init=True, sys_path=call_roots)
            n_checked += 1
            if ctx is not None:
                ctx.count()
                comps = name.split('.')
                if len(comps) >= 2 and (has_plain or _clash_on_path(tree, comps)):
                    ctx.nontriv((tree, name), {'tree': tree, 'name': name,
                                               'reference': spec.origin if spec else None})
                ctx.tag('name:present' if name in present else 'name:absent')
                ctx.tag('resolves' if spec else 'does_not_resolve')
            where = 'tree={} roots={} name={!r}'.format(tree, [os.path.basename(r) for r in roots], name)
            if spec is None:
                if got_f is not None or got_d is not None:
                    raise Violation('found_what_interpreter_does_not:' + _shape(tree, name),
                                    'modname_to_modpath -> {} / {} but the interpreter finds nothing; {}'.format(
                                        got_f, got_d, where))
                continue
            origin = spec.origin
            if got_f is None:
                raise Violation('missed_what_interpreter_finds:' + _shape(tree, name),
                                'modname_to_modpath -> None but the interpreter finds {}; {}'.format(origin, where))
            if not _same(got_f, origin):
                key = 'wrong_file:' + _shape(tree, name)
                if ctx is not None and ctx.is_suppressed(key):
                    ctx.suppressed_hits[key] += 1     # known finding: counted, the other names are still checked
                    continue
                raise Violation(key, 'modname_to_modpath(hide_init=False) -> {} but the interpreter imports {}; {}'.format(
                    got_f, origin, where))
            is_pkg = spec.submodule_search_locations is not None
            exp_d = os.path.dirname(origin) if is_pkg else origin
            if got_d is None or not _same(got_d, exp_d):
                raise Violation('wrong_path_hide_init:' + _shape(tree, name),
                                'modname_to_modpath(hide_init=True) -> {} expected {}; {}'.format(got_d, exp_d, where))
            if root_has_init:
                continue
            # path -> name
            for p in (got_f, got_d):
                back = utils.modpath_to_modname(p)
                if back != name:
                    raise Violation('name_roundtrip:' + _shape(tree, name),
                                    'modpath_to_modname({}) -> {!r} expected {!r}; {}'.format(p, back, name, where))
            # split
            for p in (got_f, got_d):
                dpath, rel = utils.split_modpath(p)
                r = [r for r in roots if _same(r, dpath)]
                if not r:
                    raise Violation('split_dir:' + _shape(tree, name),
                                    'split_modpath({}) -> directory {} which is not the search root; {}'.format(p, dpath, where))
                if not _same(os.path.join(dpath, rel), p) or os.path.isabs(rel):
                    raise Violation('split_join:' + _shape(tree, name),
                                    'split_modpath({}) -> ({}, {}) does not join back; {}'.format(p, dpath, rel, where))
                exp_rel = os.path.relpath(os.path.abspath(p), os.path.abspath(r[0]))
                if rel != exp_rel:
                    raise Violation('split_rel:' + _shape(tree, name),
                                    'split_modpath({}) -> relative part {!r} expected {!r}; {}'.format(p, rel, exp_rel, where))


def _after_names(case, ctx, tree, root, roots, utils):
    if True:
        # every python file: split gives the directory that must be on the path
        for rel in _py_files(tree):
            path = os.path.join(root, *rel.split('/'))
            dpath, relp = utils.split_modpath(path)
            if not _same(os.path.join(dpath, relp), path):
                raise Violation('split_join:file', 'split_modpath({}) -> ({}, {})'.format(path, dpath, relp))
            # reference: deepest ancestor chain of packages
            parts = rel.split('/')
            k = len(parts) - 1
            while k > 0 and trees.is_package_dir(tree, '/'.join(parts[:k])):
                k -= 1
            exp_dir = os.path.join(root, *parts[:k]) if k else root
            if not _same(dpath, exp_dir):
                raise Violation('split_dir:file', 'split_modpath({}) -> {} expected {} ; tree={}'.format(
                    path, dpath, exp_dir, tree))
            if ctx is not None:
                ctx.count()
        _check_imports(case, tree, root, roots, ctx)


def _py_files(tree):
    return [f for f in trees.all_python_files(tree) if f.endswith('.py')]


def _clash_on_path(tree, comps):
    files = set(tree['files'])
    dirs = {r for r, _h in tree['dirs']}
    for i in range(1, len(comps) + 1):
        stem = '/'.join(comps[:i])
        kinds = sum([stem + '.py' in files, stem in dirs, any(stem + s in files for s in mach.EXTENSION_SUFFIXES)])
        if kinds >= 2:
            return True
    return False


def _shape(tree, name):
    """root-cause hint: what exists on disk for the last component"""
    comps = name.split('.')
    stem = '/'.join(comps)
    files = set(tree['files'])
    dirs = dict((r, h) for r, h in tree['dirs'])
    out = []
    if stem + '.py' in files:
        out.append('py')
    if any(stem + s in files for s in mach.EXTENSION_SUFFIXES):
        out.append('ext')
    if stem in dirs:
        out.append('pkg' if dirs[stem] else 'plaindir')
    chain_ok = all(dirs.get('/'.join(comps[:i])) for i in range(1, len(comps)))
    out.append('chain_ok' if chain_ok else 'chain_broken')
    if comps[-1] == '__main__':
        out.append('main')
    return '+'.join(out)


def _check_imports(case, tree, root, roots, ctx):
    from xdoctest import utils
    raising = set(case.get('raising', []))
    index = case.get('index', -1)
    done = 0
    for rel in _py_files(tree):
        if done >= 6:
            break
        path = os.path.join(root, *rel.split('/'))
        parts = rel.split('/')
        # the name this file has for the interpreter, relative to the directory split_modpath must find
        k = len(parts) - 1
        while k > 0 and trees.is_package_dir(tree, '/'.join(parts[:k])):
            k -= 1
        sdir = os.path.join(root, *parts[:k]) if k else root
        comps = parts[k:]
        comps[-1] = comps[-1][:-3]
        if comps[-1] == '__init__':
            comps = comps[:-1]
        if not comps or comps[-1] == '__main__':
            continue
        name = '.'.join(comps)
        spec = ref_resolve([sdir], name)
        if spec is None or not _same(spec.origin, path):
            if ctx is not None:
                ctx.notes['import_skipped_shadowed'] += 1
            continue   # shadowed by a package / extension of the same name: not importable by name at all
        top = comps[0]
        if top in sys.modules or importlib.util.find_spec(top) is not None:
            if ctx is not None:
                ctx.notes['import_skipped_name_taken'] += 1
            continue
        # any module on the import chain that cannot be imported?  (it raises itself, or - transitively - imports a sibling
        # that raises or that is shadowed by an empty, unloadable extension file)
        chain = ['/'.join(parts[:j] + ['__init__.py']) for j in range(k + 1, len(parts))] + [rel]
        sib = dict((f, s_) for f, s_ in case.get('sibling', []))

        def fails(c, seen=()):
            if c in raising:
                return True
            if c in seen or c not in sib:
                return False
            sp = '/'.join(c.split('/')[:-1] + [sib[c] + '.py'])
            stem = sp[:-3]
            if any(stem + e in tree['files'] for e in mach.EXTENSION_SUFFIXES):
                return True
            return fails(sp, seen + (c,))
        will_raise = any(fails(c) for c in chain)
        on_path = bool(case.get('root_on_path'))
        # index=0 is the documented way out of a name conflict: another directory on sys.path that holds the same dotted name
        # must lose against the file that was asked for
        rival = None
        if index == 0 and case.get('shadowed_root') and case.get('second_root', 'none') != 'none' and not case.get('symlink'):
            rival = os.path.join(os.path.dirname(root), 'other', *parts[:k])
            if os.path.isdir(rival):
                sys.path.insert(0, rival)
                if ctx is not None:
                    ctx.tag('import:rival_directory_on_path')
            else:
                rival = None
        if on_path:
            # the directory is already a search path entry (at the front): it must still be exactly there afterwards
            sys.path.insert(0, sdir)
        before_obj = sys.path
        before = list(sys.path)
        err = None
        mod = None
        try:
            with sandbox.quiet():
                mod = utils.import_module_from_path(path, index=index)
        except Exception as ex:   # noqa
            err = ex
        finally:
            after_obj, after = sys.path, list(sys.path)
            sys.path = before_obj
            sys.path[:] = before
            if on_path:
                sys.path.remove(sdir)
            if rival is not None:
                sys.path.remove(rival)
            sandbox.purge_modules([top])
        done += 1
        if ctx is not None:
            ctx.count()
            ctx.tag('import:raises' if will_raise else 'import:ok')
            if on_path:
                ctx.tag('import:dir_already_on_path')
        if after_obj is not before_obj or after != before:
            raise Violation('sys_path_changed:' + ('raising' if will_raise else 'ok'),
                            'sys.path differs after import_module_from_path({}, index={}): added {} removed {}{}; tree={}'.format(
                                rel, index, [p for p in after if p not in before], [p for p in before if p not in after],
                                ' (same entries, different order)' if sorted(after) == sorted(before) else '', tree))
        if will_raise:
            if err is None:
                raise Violation('import_should_fail', 'import of {} returned {} although the module raises'.format(rel, mod))
            continue
        if err is not None:
            raise Violation('import_failed:' + type(err).__name__,
                            'import_module_from_path({}) raised {!r}; tree={}'.format(rel, err, tree))
        if mod.__name__ != name:
            raise Violation('import_wrong_name', 'import_module_from_path({}) -> module {!r} expected {!r}'.format(
                rel, mod.__name__, name))
        if not _same(mod.__file__, path):
            raise Violation('import_wrong_file', 'import_module_from_path({}) -> file {}'.format(rel, mod.__file__))


def _check(case, ctx):
    t = case['tree']
    if any(not h for _r, h in t['dirs']):
        ctx.tag('tree:dir_without_init')
    if any(not h and '/' in r for r, h in t['dirs']):
        ctx.tag('tree:missing_init_below_root')
    if any(f.endswith(tuple(mach.EXTENSION_SUFFIXES)) for f in t['files']):
        ctx.tag('tree:extension_file')
    if case.get('second_root') != 'none':
        ctx.tag('second_root')
    check_case(case, ctx)


def hyp_trees(ctx, n_examples):
    engine.hyp_run(ctx, tree_case(), _check, n_examples)


def health(tot, tier):
    c = tot['classes']
    n = max(1, c.get('name:present', 0))
    for need in ('does_not_resolve', 'resolves', 'import:ok', 'import:raises'):
        if c.get(need, 0) < 0.01 * n:
            return 'class {} is below 1% of the generated names'.format(need)
    return None


def selftest():
    # the reference agrees with the running interpreter on a hand-built tree
    with sandbox.scratch('c17s') as root:
        u = sandbox.unique_name('vps17')
        tree = {'top': u, 'dirs': [[u, True], [u + '/sub', True], [u + '/plain', False]],
                'files': [u + '/m.py', u + '/sub/leaf.py', u + '/plain/orphan.py', u + '/sub.py']}
        trees.write_tree(tree, root)
        assert ref_resolve([root], u + '.m').origin.endswith('m.py')
        assert ref_resolve([root], u + '.sub').origin.endswith(os.path.join('sub', '__init__.py'))
        assert ref_resolve([root], u + '.plain.orphan') is None
        assert ref_resolve([root], u + '.m.x') is None
        sys.path.insert(0, root)
        try:
            importlib.invalidate_caches()
            m = importlib.import_module(u + '.sub.leaf')
            assert _same(m.__file__, ref_resolve([root], u + '.sub.leaf').origin)
            try:
                importlib.import_module(u + '.m.x')
                raise AssertionError('module used as package imported')
            except ImportError:
                pass
        finally:
            sys.path.remove(root)
            sandbox.purge_modules([u])


def jobs(tier):
    per = 300 if tier == 'quick' else 3000
    return [('hyp_trees#%d' % s, 'hyp_trees', dict(n_examples=per)) for s in range(16)]
