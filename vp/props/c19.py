"""
C19 — The dump command emits valid Python holding every doctest statement in order.

Generated modules whose doctests come from the C01 program generator (plus
star-imports, block and inline directives, a force-disabled and a
comment-only doctest) are converted with the dump command; the text must parse,
hold exactly one function per enabled doctest in order, and each function body
must be the doctest's de-prompted lines with the wants as comment blocks.
"""
import ast
import os
import re

from vp import engine, sandbox
from vp.engine import Violation
from vp.gen import programs
from vp.gen.draw import composite

ID = 'C19'
DESIGN_REF = '6.19'
TECHNIQUE = ('Hypothesis-generated modules (C01 program generator inside module docstrings) -> dump; oracle = ast.parse + '
             'line-for-line comparison of every function body with the by-construction de-prompted lines and wants')
LEVEL_TEXT = ("Generated modules with 1-6 documented functions and methods whose doctests come from the C01 program generator "
              "(about 55 statement kinds incl. multi-line statements, decorators, triple-quoted strings with unprefixed "
              "interior lines, wants of several lines, comments, top-level await) extended with star-imports, block and "
              "inline directives, a force-disabled doctest and a comment-only doctest, in google blocks or freeform docstrings "
              "x style auto/google/freeform: the dump text must be accepted by ast.parse, consist of exactly one function per "
              "enabled doctest in module order (matched through its 'converted from <node>' docstring) and nothing else, and "
              "every function body, de-indented by four, must equal line for line the doctest's de-prompted source lines in "
              "order minus star-import lines, with each want as a '# doctest want:' comment block right after the statement "
              "it belongs to. The CLI form is compared with the in-process text on a sample. Randomised exploration with "
              "shrinking.")
LEVEL_ADDED = ("A third of the cases run with analysis='dynamic'; half of the modules get a subclass that overrides documented methods without documenting them (it holds no doctest).")
LEVEL_NOTE = ("Trusted: the generator's per-line bookkeeping (shared with C01/C18). An optional 'from <module> import ...' "
              "header line (names pyflakes reports undefined) is accepted. Empty lines that stem from bare '...' terminators "
              "may be absent. Two doctests of one callable get the same function name; only the count and order are asserted. "
              "Star imports nested in compound statements and the text ' import *' inside strings are not generated.")
RULE = ("modules of 1-6 doctests. Non-trivial doctest: has a triple-quoted string or a bracketed statement spanning >= 3 lines "
        "and >= 1 want. Distinct = distinct docstring text.")
ASSUMPTIONS = ["a doctest's lines are de-prompted as in C01: four columns dropped from prompt / blank-prefixed lines, "
               "lines starting in the first four columns of a triple-quoted string kept whole"]
STYLES = ['auto', 'google', 'freeform']


def build_module(case):
    """-> (lines, inventory) ; inventory: [{'callname','num','disabled','expected': [...body lines...]}]"""
    L = ['import os', '']
    inv = {'google': [], 'freeform': []}
    in_class = False
    for i, fn in enumerate(case['funcs']):
        name = 'f{}'.format(i)
        if fn.get('in_class'):
            if not in_class:
                L += ['class K(object):', '    attr = 1', '']
                in_class = True
            ind = '    '
            cn = 'K.' + name
        else:
            in_class = False
            ind = ''
            cn = name
        L.append('{}def {}({}):'.format(ind, name, 'self=None' if ind else ''))
        L.append('{}    """'.format(ind))
        L.append('{}    Summary of {}.'.format(ind, name))
        L.append('')
        body_ind = ind + '    '
        if fn['layout'] == 'google':
            L.append('{}    Example:'.format(ind))
            body_ind = ind + '        '
        doc_lines, expected = doctest_lines(fn)
        for ln in doc_lines:
            # an ordinary (non-raw) literal: backslashes and triple double quotes of the doctest are escaped, so the
            # docstring *value* is exactly the intended text whatever quotes the doctest itself uses
            ln = ln.replace('\\', '\\\\').replace('"""', '\\"\\"\\"')
            L.append((body_ind + ln) if ln.strip() else '')
        second = None
        if fn.get('second_block') and fn['layout'] == 'google' and not fn.get('special'):
            # a second google block of the same callable: two doctests (name:0, name:1) that share the generated function name
            L.append('')
            L.append('{}    Example:'.format(ind))
            L.append('{}>>> T.append({})'.format(body_ind, 900 + i))
            L.append("{}>>> print('second block of {}')".format(body_ind, name))
            L.append('{}second block of {}'.format(body_ind, name))
            second = ['T.append({})'.format(900 + i), "print('second block of {}')".format(name), '# doctest want:',
                      '# second block of {}'.format(name)]
        L.append('{}    """'.format(ind))
        L.append('{}    return 1'.format(ind))
        L += ['', '']
        ent = {'callname': cn, 'num': 0, 'disabled': fn.get('special') == 'disabled', 'expected': expected,
               'nontrivial': fn.get('nontrivial', False)}
        if fn['layout'] == 'google':
            inv['google'].append(ent)
            if second:
                inv['google'].append({'callname': cn, 'num': 1, 'disabled': False, 'expected': second, 'nontrivial': False})
        if second:
            # in freeform style the docstring is one doctest holding both blocks
            inv['freeform'].append(dict(ent, expected=list(expected) + second))
        else:
            inv['freeform'].append(ent)
    if case.get('subclass'):
        # a subclass that overrides documented methods without documenting them again (and has no docstring of its own):
        # it holds no doctest, however the docstrings are looked up
        meths = ['f{}'.format(i) for i, fn in enumerate(case['funcs']) if fn.get('in_class')]
        if meths and k_openings(case) == 1:
            L += ['class KChild(K):', '']
            for m in meths[:2]:
                L += ['    def {}(self=None):'.format(m), '        return 2', '']
            L += ['']
    return L, inv


def k_openings(case):
    n, prev = 0, False
    for fn in case['funcs']:
        cur = bool(fn.get('in_class'))
        if cur and not prev:
            n += 1
        prev = cur
    return n


def doctest_lines(fn):
    """docstring lines (relative indentation) and the expected dump body lines"""
    if fn.get('special') == 'disabled':
        return ['>>> ' + fn.get('marker', '# DISABLE_DOCTEST'), '>>> print(1)', '2'], None
    if fn.get('special') == 'comment_only':
        return ['>>> # only a comment'], ['# only a comment']
    p = fn['prog']
    doc = p['doc'].split('\n')
    if doc and doc[-1] == '':
        doc = doc[:-1]
    # remove the program's own base indentation (it is re-indented into the module); tabs are expanded first
    doc = [ln.expandtabs() for ln in doc]
    base = min([len(ln) - len(ln.lstrip()) for ln in doc if ln.strip()] or [0])
    doc = [ln[base:] for ln in doc]
    labels = [lab for lab, _ in p['labels']]
    exec_lines = list(p['exec_lines'])
    out_doc = []
    expected = []
    pre = fn.get('pre', [])
    first_src = [ln for ln, lab in zip(doc, labels) if lab == 'src'][0]
    ex_ind = first_src[:len(first_src) - len(first_src.lstrip())]
    for kind in pre:
        if kind == 'star':
            out_doc.append(ex_ind + '>>> from os.path import *')
        elif kind == 'star2':
            out_doc.append(ex_ind + '>>> from collections import *  # all of it')
        elif kind == 'block_directive':
            out_doc.append(ex_ind + '>>> # xdoctest: +REQUIRES(module:os)')
            expected.append('# xdoctest: +REQUIRES(module:os)')
        elif kind == 'deep_expr':
            # a chain of several hundred binary operators: fine for Python, too deep for a recursive AST walker
            terms = ' + '.join(['1'] * 20)
            out_doc.append(ex_ind + '>>> big = (' + terms)
            expected.append('big = (' + terms)
            for _ in range(34):
                out_doc.append(ex_ind + '...        + ' + terms)
                expected.append('       + ' + terms)
            out_doc.append(ex_ind + '...        )')
            expected.append('       )')
        elif kind == 'inline_directive':
            out_doc.append(ex_ind + '>>> q0 = [1,  # xdoctest: +SKIP')
            out_doc.append(ex_ind + '...       2]')
            expected += ['q0 = [1,  # xdoctest: +SKIP', '      2]']
    # leading prose of the program must stay in front of the added lines? no: added lines go first, prose after is text
    if pre and labels and labels[0] == 'text':
        out_doc.append('')
    j = 0
    in_want = False
    prompt_ind = 0
    for ln, lab in zip(doc, labels):
        out_doc.append(ln)
        if lab == 'src':
            expected.append(('src', exec_lines[j], ln.strip() == '...'))
            j += 1
            in_want = False
            if ln.lstrip().startswith('>>>'):
                prompt_ind = len(ln) - len(ln.lstrip())
        elif lab == 'want':
            if not in_want:
                expected.append('# doctest want:')
                in_want = True
            # a want line keeps the blanks it has beyond the column of its prompt
            expected.append('# ' + (ln[prompt_ind:] if not ln[:prompt_ind].strip() else ln.lstrip()).rstrip())
        else:
            in_want = False
    last_src = [ln for ln, lab in zip(doc, labels) if lab == 'src'][-1]
    ex_ind = last_src[:len(last_src) - len(last_src.lstrip())]     # the added lines continue the last chunk
    for kind in fn.get('post', []):
        if kind == 'skip_block':
            out_doc += [ex_ind + '>>> # xdoctest: +SKIP', ex_ind + ">>> print('skipped')", ex_ind + 'skipped']
            expected += ['# xdoctest: +SKIP', "print('skipped')", '# doctest want:', '# skipped']
        elif kind == 'star_late':
            out_doc += [ex_ind + '>>> from os.path import *', ex_ind + '>>> zz = 1']
            expected += ['zz = 1']
    return out_doc, expected


def expected_inventory(inv, case, style):
    if style == 'google':
        return inv['google']
    if style == 'freeform':
        return inv['freeform']
    # auto: google's answer for docstrings that hold a google block, else freeform's
    gnames = {x['callname'] for x in inv['google']}
    out = []
    seen = set()
    for x in inv['freeform']:
        if x['callname'] in gnames:
            if x['callname'] not in seen:
                seen.add(x['callname'])
                out += [g for g in inv['google'] if g['callname'] == x['callname']]
        else:
            out.append(x)
    return out


def split_functions(text):
    lines = text.split('\n')
    starts = [i for i, ln in enumerate(lines) if ln.startswith('def ')]
    funcs = []
    for a, b in zip(starts, starts[1:] + [len(lines)]):
        seg = lines[a:b]
        while seg and not seg[-1].strip():
            seg.pop()
        funcs.append(seg)
    head = lines[:starts[0]] if starts else lines
    return head, funcs


def compare_body(body, expected):
    """body: de-indented function body lines after the docstring/header; expected: list of str | ('src', line, is_terminator)"""
    i = 0
    for e in expected:
        if isinstance(e, tuple):
            _, line, is_term = e
            while i < len(body) and not body[i].strip() and line.strip():
                i += 1        # an empty line (left behind by a removed star-import, or between parts) is not a statement
            if i < len(body) and body[i].rstrip() == line.rstrip():
                i += 1
            elif is_term:
                continue      # the empty line that stems from a bare '...' terminator may be absent
            else:
                return 'line {}: expected source line {!r}, found {!r}'.format(i, line, body[i] if i < len(body) else '<end>')
        else:
            while i < len(body) and not body[i].strip():
                i += 1
            if i < len(body) and body[i].rstrip() == e.rstrip():
                i += 1
            else:
                return 'line {}: expected {!r}, found {!r}'.format(i, e, body[i] if i < len(body) else '<end>')
    rest = [b for b in body[i:] if b.strip()]
    if rest:
        return 'unexpected extra lines at the end: {}'.format(rest[:3])
    return None


def check_case(case, ctx):
    import xdoctest
    style = case.get('style', 'auto')
    lines, inv = build_module(case)
    name = sandbox.unique_name('vpc19')
    with sandbox.scratch('c19') as d:
        path = os.path.join(d, name + '.py')
        with open(path, 'w') as f:
            f.write('\n'.join(lines) + '\n')
        try:
            with sandbox.quiet() as (out, err, wl):
                # (the class K is opened once at most when the live module is read: a class statement met twice rebinds the name)
                analysis = case.get('analysis', 'auto') if k_openings(case) <= 1 else 'auto'
                xdoctest.doctest_module(path, command='dump', argv=[], style=style, verbose=0, analysis=analysis)
            text = out.getvalue()
            src = '\n'.join('{:3d} {}'.format(i + 1, ln) for i, ln in enumerate(lines))
            where = 'style={}\n--- dump\n{}\n--- module\n{}'.format(style, text[:5000], src[:6000])
            exp = [x for x in expected_inventory(inv, case, style) if not x['disabled']]
            if ctx is not None:
                ctx.count()
                ctx.tag('style:' + style, 'analysis:' + analysis)
                for x in exp:
                    if x['nontrivial']:
                        ctx.nontriv('\n'.join(map(str, x['expected'])), {'expected_body': [e if isinstance(e, str) else e[1] for e in x['expected']][:40]})
            try:
                tree = ast.parse(text)
            except SyntaxError as ex:
                bad = text.split('\n')[ex.lineno - 1] if ex.lineno and ex.lineno <= len(text.split('\n')) else ''
                raise Violation('not_valid_python:' + _classify_line(bad), 'dump is not valid Python: {} at line {}: {!r}\n{}'.format(
                    ex.msg, ex.lineno, bad, where))
            tops = [type(n).__name__ for n in tree.body]
            if any(t != 'FunctionDef' for t in tops):
                raise Violation('top_level_not_function', 'top-level nodes of the dump: {}\n{}'.format(tops, where))
            head, funcs = split_functions(text)
            if any(h.strip() for h in head):
                raise Violation('text_before_first_function', 'dump starts with {!r}\n{}'.format(head[:3], where))
            if len(funcs) != len(exp):
                kind = 'disabled_dumped' if len(funcs) > len(exp) else 'missing_function'
                raise Violation('function_count:' + kind, 'dump holds {} functions for {} enabled doctests\n{}'.format(
                    len(funcs), len(exp), where))
            for seg, x in zip(funcs, exp):
                node = '{}::{}:{}'.format(path, x['callname'], x['num'])
                body = []
                for ln in seg[1:]:
                    if ln.strip() and not ln.startswith('    '):
                        raise Violation('body_indent', 'function body line {!r} is not indented by four\n{}'.format(ln, where))
                    body.append(ln[4:])
                if body[:3] != ['"""', 'converted from ' + node, '"""']:
                    raise Violation('function_order_or_docstring', 'function for {} starts with {}\n{}'.format(node, body[:3], where))
                body = body[3:]
                if body and re.match(r'^from {} import [\w, ]+$'.format(re.escape(name)), body[0]):
                    body = body[1:]
                msg = compare_body(body, x['expected'])
                if msg:
                    raise Violation('body_differs:' + _classify(msg), 'doctest {}: {}\n--- expected\n{}\n{}'.format(
                        node, msg, '\n'.join(e if isinstance(e, str) else e[1] for e in x['expected']), where))
            if case.get('cli'):
                rc, o, e = sandbox.run_cli(['-m', 'xdoctest', path, 'dump', '--style=' + style], cwd=d)
                cli_text = o
                if rc != 0 or _norm(cli_text) != _norm(text):
                    # the CLI may print log lines around the module text; the module text itself must be there
                    if rc != 0 or _norm(text) not in _norm(cli_text):
                        raise Violation('cli_differs', 'CLI dump (exit {}) differs from the in-process dump\n--- cli\n{}\n{}'.format(
                            rc, cli_text[:3000], where))
                if ctx is not None:
                    ctx.tag('cli')
        finally:
            sandbox.purge_modules([name])


def _norm(t):
    return '\n'.join(ln.rstrip() for ln in t.strip().split('\n'))


def _classify(msg):
    if 'want' in msg:
        return 'want'
    if 'extra' in msg:
        return 'extra'
    if 'import *' in msg:
        return 'star'
    return 'source'


def _classify_line(bad):
    s = bad.strip()
    if s.startswith('#'):
        return 'comment'
    if s.startswith(('"""', "'''")) or s.endswith(('"""', "'''")):
        return 'string'
    return 'other'


@composite
def case_strategy(D, max_funcs, max_groups):
    funcs = []
    for i in range(D.int(1, max_funcs)):
        special = D.weighted([(None, 8), ('disabled', 1), ('comment_only', 1)])
        fn = {'layout': D.choice(['google', 'bare']), 'in_class': D.chance(1, 5), 'special': special, 'second_block': D.chance(1, 4)}
        if special == 'disabled':
            fn['marker'] = D.choice(['# DISABLE_DOCTEST', '# SCRIPT', '# UNSTABLE', '# FAILING', '# SLOW_DOCTEST'])
        if special is None:
            p = programs.gen_program(D, max_groups=max_groups)
            fn['prog'] = {k: p[k] for k in ('doc', 'labels', 'exec_lines', 'example_indent')}
            fn['pre'] = D.subset(['star', 'block_directive', 'inline_directive', 'star2', 'deep_expr'], max_size=2) if D.chance(1, 2) else []
            fn['post'] = D.subset(['skip_block', 'star_late'], max_size=1) if D.chance(1, 3) else []
            big = any(g['kind'] in ('tstr', 'tstr_unpref', 'tstr_col0', 'tstr_col0_dq', 'tstr_blank', 'mlist', 'mcall', 'mdict',
                                    'comment_in_br', 'valtuple_ml') for g in p['groups'])
            fn['nontrivial'] = bool(big and any(g['want'] for g in p['groups']))
            fn['kinds'] = [g['kind'] for g in p['groups']]
        funcs.append(fn)
    return {'funcs': funcs, 'style': D.choice(STYLES), 'cli': D.chance(1, 25), 'analysis': D.choice(['auto', 'auto', 'dynamic']),
            'subclass': D.chance(1, 2)}


def _check(case, ctx):
    for fn in case['funcs']:
        for k in fn.get('kinds', []):
            ctx.tag('kind:' + k)
        for k in fn.get('pre', []) + fn.get('post', []):
            ctx.tag('extra:' + k)
        if fn.get('special'):
            ctx.tag('special:' + fn['special'])
        if fn.get('second_block') and fn['layout'] == 'google' and not fn.get('special'):
            ctx.tag('two_blocks_one_callable')
    check_case(case, ctx)


def hyp_modules(ctx, n_examples, max_funcs, max_groups):
    engine.hyp_run(ctx, case_strategy(max_funcs, max_groups), _check, n_examples)


def health(tot, tier):
    c = tot['classes']
    for need in ('extra:star', 'extra:inline_directive', 'special:disabled', 'special:comment_only', 'kind:tstr_unpref', 'kind:deco',
                 'kind:await', 'cli'):
        if c.get(need, 0) < 1:
            return 'class {} was never generated'.format(need)
    return None


def selftest():
    body = ['x = [1,', '     2]', '# doctest want:', '# 3', 'print(1)']
    exp = [('src', 'x = [1,', False), ('src', '     2]', False), ('src', '', True), '# doctest want:', '# 3', ('src', 'print(1)', False)]
    assert compare_body(body, exp) is None
    assert compare_body(body[:-1], exp) is not None
    assert compare_body(body + ['y = 2'], exp) is not None
    assert compare_body([body[1], body[0]] + body[2:], exp) is not None
    head, funcs = split_functions('def a():\n    x\n\n\ndef b():\n    y\n    # c\n')
    assert head == [] and funcs == [['def a():', '    x'], ['def b():', '    y', '    # c']]


def jobs(tier):
    per = 250 if tier == 'quick' else 4000
    return [('hyp_modules#%d' % s, 'hyp_modules', dict(n_examples=per, max_funcs=6, max_groups=6)) for s in range(16)]
