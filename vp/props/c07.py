"""
C07 — Collection is exact: every documented callable yields its doctests once.

Generated modules (G3) and package trees (G4) are collected statically in the
three styles and compared, as multisets of (module, callname, index), with the
inventory the generator kept.
"""
import os

from vp import engine, sandbox
from vp.engine import Violation
from vp.gen import modules, trees
from vp.gen.draw import composite

ID = 'C07'
DESIGN_REF = '6.7'
TECHNIQUE = ('Hypothesis-generated module sources and package trees x style; oracle = by-construction inventory '
             '(multiset equality of collected identifiers, block order, prompt lines of every doctest)')
LEVEL_TEXT = ("Generated modules (def / async def / classes with plain, static, class, property, dunder, wrapped and "
              "conditional methods, decorator lists, multi-line signatures, definitions under if/try/with, nested "
              "functions and classes, setters/deleters, main guard, docstrings in google / freeform / mixed / prose layout "
              "with every quote form and prefix) and package trees (with and without __init__.py) are collected in the styles "
              "auto, google and freeform; the collected (module, callname, index) multiset, the block order and the prompt "
              "lines of every doctest must equal the generator's inventory. Randomised exploration with shrinking.")
LEVEL_ADDED = ('A quarter of the module files are written over an earlier version of themselves that was collected a moment before (what counts is the file as it is now); files may open with blank lines.')
LEVEL_NOTE = ("Trusted: the generator's inventory (style rules are encoded in the generator, not re-derived from text). Not "
              "generated because the statement does not decide them: duplicate names in one scope, the reversed main guard, "
              "Script:/Benchmark: blocks and freeform skip words, tags whose next line is not indented, definitions in "
              "branches that do not execute.")
RULE = ("modules of 2-7 top-level items and package trees. Non-trivial: >= 1 must-not item, >= 1 class with >= 2 kinds of "
        "method and >= 1 docstring with >= 2 blocks (modules); a directory without __init__.py below the root (trees). "
        "Distinct = distinct module source / tree.")
ASSUMPTIONS = [
    "google -> one doctest per Example/Examples/Doctest block in order; freeform -> one per docstring holding a prompt; "
    "auto -> google's answer when the docstring has such a block, else freeform's",
]
STYLES = ['auto', 'google', 'freeform']


def collected_prompt_lines(docsrc):
    return [ln.strip() for ln in docsrc.split('\n') if ln.strip().startswith(('>>>', '...'))]


def check_module_case(case, path=None):
    from xdoctest import core, static_analysis
    lines = case['lines']
    own = path is None
    name = sandbox.unique_name('vpc07')
    ctxm = sandbox.scratch('c07') if own else None
    d = ctxm.__enter__() if own else None
    try:
        if own:
            path = os.path.join(d, name + '.py')
            with open(path, 'w', encoding='utf-8') as f:
                # some files start with a UTF-8 byte-order mark (Windows editors, utf-8-sig)
                if case.get('rewritten'):
                    # the path held another version a moment ago and was collected then: what counts is the file as it is now
                    f.write('\n'.join(modules.decoy_lines(lines)) + '\n')
                    f.close()
                    with sandbox.quiet():
                        list(core.parse_doctestables(path, style=STYLES[0], analysis='static'))
                    f = open(path, 'w', encoding='utf-8')
                f.write(('\ufeff' if case.get('bom') else '') + '\n'.join(lines) + '\n')
                f.close()
        for style in STYLES:
            with sandbox.quiet():
                exs = list(core.parse_doctestables(path, style=style, analysis='static'))
            exp = modules.expected_inventory(case, style)
            got = sorted((e.callname, e.num) for e in exs)
            want = sorted((x['callname'], x['num']) for x in exp)
            if got != want:
                missing = sorted(set(want) - set(got))
                extra = sorted(set(got) - set(want))
                dup = sorted({g for g in got if got.count(g) > 1})
                kind = 'omission' if missing else ('intrusion' if extra else 'duplicate')
                hint = _name_hint(case, (missing or extra or dup)[0][0])
                raise Violation('inventory:{}:{}'.format(kind, hint),
                                'style {}: missing {} extra {} duplicated {}\n{}'.format(
                                    style, missing, extra, dup, _numbered(lines)))
            ids = [e.unique_callname for e in exs]
            if len(ids) != len(set(ids)):
                raise Violation('identifiers_not_unique', 'style {}: {}'.format(style, ids))
            expd = {(x['callname'], x['num']): x for x in exp}
            last_line = {}
            for e in exs:
                x = expd[(e.callname, e.num)]
                # order of the blocks of one docstring = order in the text
                if e.callname in last_line and not (last_line[e.callname][0] < e.num and last_line[e.callname][1] < x['first']):
                    raise Violation('block_order', 'style {}: blocks of {} are not in text order'.format(style, e.callname))
                last_line[e.callname] = (e.num, x['first'])
                exp_prompts = []
                for a, b in x['spans']:
                    exp_prompts += [ln.strip() for ln in lines[a - 1:b] if ln.strip().startswith(('>>>', '...'))]
                got_prompts = collected_prompt_lines(e.docsrc)
                if got_prompts != exp_prompts:
                    raise Violation('docsrc_prompts',
                                    'style {}: doctest {}:{} holds prompt lines {} expected {}\n{}'.format(
                                        style, e.callname, e.num, got_prompts[:6], exp_prompts[:6], _numbered(lines)))
        with sandbox.quiet():
            calldefs = static_analysis.parse_static_calldefs(fpath=path)
        keys = set(calldefs)
        lost = [c for c in case['callnames'] if c not in keys]
        if lost:
            raise Violation('calldefs:omission:' + _name_hint(case, lost[0]),
                            'parse_static_calldefs lacks {}\n{}'.format(lost, _numbered(lines)))
        leaked = [c for c in case['mustnot'] if c in keys or c.split('.')[-1] in keys]
        if leaked:
            raise Violation('calldefs:intrusion:' + _name_hint(case, leaked[0]),
                            'parse_static_calldefs holds {} which must not be collected\n{}'.format(leaked, _numbered(lines)))
    finally:
        if own:
            ctxm.__exit__(None, None, None)


def _name_hint(case, callname):
    """coarse classification of the callable a discrepancy is about (root-cause key)"""
    lines = case['lines']
    base = callname.split('.')[-1]
    for i, ln in enumerate(lines):
        s = ln.strip()
        if s.startswith(('def ' + base + '(', 'async def ' + base + '(', 'class ' + base + '(', 'class ' + base + ':')):
            kind = 'async' if s.startswith('async') else ('class' if s.startswith('class') else 'def')
            deco = i > 0 and lines[i - 1].strip().startswith('@')
            nested = len(ln) - len(ln.lstrip()) >= 4
            return '{}{}{}'.format(kind, '+deco' if deco else '', '+indented' if nested else '')
    return 'docstring' if callname == '__doc__' else 'other'


def _numbered(lines):
    return '\n'.join('{:3d} {}'.format(i + 1, ln) for i, ln in enumerate(lines))[:4000]


def check_tree_case(case):
    from xdoctest import core
    tree = case['tree']
    with sandbox.scratch('c07t') as root:
        def content(rel):
            fn = 'f_' + ''.join(ch if ch.isalnum() else '_' for ch in rel)
            return 'def {}():\n    """\n    Example:\n        >>> print(1)\n        1\n    """\n'.format(fn)
        trees.write_tree(tree, root, content)
        for top in trees.top_level_names(tree):
            target = os.path.join(root, top)
            if not os.path.isdir(target):
                continue
            expected = set()
            if trees.is_package_dir(tree, top):
                for rel in trees.all_python_files(tree):
                    parts = rel.split('/')
                    if parts[0] != top:
                        continue
                    # every directory on the way must be a package
                    ok = all(trees.is_package_dir(tree, '/'.join(parts[:i])) for i in range(1, len(parts)))
                    if ok:
                        expected.add(rel)
            with sandbox.quiet():
                exs = list(core.parse_doctestables(target, style='auto', analysis='static'))
            got = [os.path.relpath(e.modpath, root).replace(os.sep, '/') for e in exs]
            if sorted(got) != sorted(expected):
                missing = sorted(expected - set(got))
                extra = sorted(set(got) - expected)
                dup = sorted({g for g in got if got.count(g) > 1})
                kind = 'omission' if missing else ('intrusion' if extra else 'duplicate')
                raise Violation('tree:' + kind,
                                'package {}: modules missing {} extra {} duplicated {}\ntree={}'.format(
                                    top, missing, extra, dup, tree))
            for e in exs:
                rel = os.path.relpath(e.modpath, root).replace(os.sep, '/')
                fn = 'f_' + ''.join(ch if ch.isalnum() else '_' for ch in rel)
                if e.callname != fn:
                    raise Violation('tree:wrong_callable', 'module {} yields {}'.format(rel, e.callname))


def check_case(case, ctx):
    if 'tree' in case:
        return check_tree_case(case)
    return check_module_case(case)


@composite
def module_strategy(D, max_items):
    m = modules.build_module(D, importable=False, fail_kinds=(None,), max_items=max_items)
    case = modules.case_of(m)
    case['bom'] = D.chance(1, 6)
    if case['bom']:
        case['features'] = sorted(set(case['features']) | {'utf8_bom'})
    case['rewritten'] = D.chance(1, 4)
    if case['rewritten']:
        case['features'] = sorted(set(case['features']) | {'path_rewritten_after_collection'})
    return case


@composite
def tree_strategy(D):
    return {'tree': trees.gen_tree(D, 't', max_depth=3)}


def _check_module(case, ctx):
    ctx.count(3)
    feats = set(case['features'])
    for f in feats:
        ctx.tag(f)
    if any(f.startswith('mustnot:') for f in feats) and 'class_with_2plus_method_kinds' in feats and \
            'docstring_with_2plus_blocks' in feats:
        ctx.nontriv('\n'.join(case['lines']), {'module': '\n'.join(case['lines'])})
    check_case(case, ctx)


def _check_tree(case, ctx):
    ctx.count()
    tree = case['tree']
    ctx.tag('tree')
    noinit = [rel for rel, h in tree['dirs'] if not h and '/' in rel]
    if noinit:
        ctx.tag('tree:missing_init_below_root')
        ctx.nontriv(('tree', tree), {'tree': tree})
    check_case(case, ctx)


def hyp_modules(ctx, n_examples, max_items):
    engine.hyp_run(ctx, module_strategy(max_items), _check_module, n_examples)


def hyp_trees(ctx, n_examples):
    engine.hyp_run(ctx, tree_strategy(), _check_tree, n_examples)


def health(tot, tier):
    c = tot['classes']
    n = max(1, c.get('module_docstring', 0) * 2)
    for need in ('async_def', 'decorated_async', 'property', 'mustnot:main_guard', 'conditional', 'mustnot:nested_class',
                 'tree:missing_init_below_root'):
        if c.get(need, 0) < 0.01 * n:
            return 'class {} is below 1% of the generated cases'.format(need)
    return None


def selftest():
    from vp.gen.draw import D

    class FakeD(D):
        def __init__(self):
            self.i = 0

        def draw(self, strategy):
            raise NotImplementedError

        def int(self, lo, hi):
            self.i += 1
            return lo + (self.i * 7) % (hi - lo + 1)

        def bool(self):
            self.i += 1
            return self.i % 2 == 0

        def chance(self, num, den):
            self.i += 1
            return (self.i * 5) % den < num

        def choice(self, seq):
            seq = list(seq)
            self.i += 1
            return seq[(self.i * 3) % len(seq)]
    m = modules.build_module(FakeD(), max_items=6)
    src = '\n'.join(m.lines) + '\n'
    compile(src, 'gen', 'exec')
    case = modules.case_of(m)
    for e in case['inv']['google'] + case['inv']['freeform']:
        assert m.lines[e['first'] - 1].strip().startswith('>>>'), e


def jobs(tier):
    per = 400 if tier == 'quick' else 4000
    out = [('hyp_modules#%d' % s, 'hyp_modules', dict(n_examples=per, max_items=7)) for s in range(13)]
    out += [('hyp_trees#%d' % s, 'hyp_trees', dict(n_examples=150 if tier == 'quick' else 2500)) for s in range(3)]
    return out
