"""
C20 — Backwards compatible: what passes under the standard doctest module
passes here, executing the same examples.

Docstrings in the standard syntax are generated from a statement grammar; their
wants are produced by the standard module itself (REPL semantics, recording
runner), the final text is checked to pass under an unmodified
``doctest.DocTestRunner(optionflags=0)`` and must then be collected as one
doctest by xdoctest, pass, and execute the same examples in the same order.
"""
import contextlib
import doctest
import io
import os
import traceback
import warnings

from hypothesis import strategies as st

from vp import engine, sandbox
from vp.engine import Violation
from vp.gen.draw import composite

ID = 'C20'
DESIGN_REF = '6.20'
TECHNIQUE = ('Hypothesis-generated standard-syntax docstrings; differential against the standard library doctest '
             'module (verdict and trace of executed examples)')
LEVEL_TEXT = ("Generated docstrings in the standard doctest syntax (30 example kinds: echoed values, printing, printing + "
              "value, loops/defs/classes with continuation lines and optional bare '...' terminator, echoed expression "
              "statements inside compound bodies, multi-line literals, semicolon lines, tracebacks with 0-2 stack lines, "
              "<BLANKLINE>, '# doctest:' SKIP/ELLIPSIS/NORMALIZE_WHITESPACE/IGNORE_EXCEPTION_DETAIL, blank-line and prose "
              "separation, indentation) whose wants are produced by the standard module; every text the standard module "
              "passes must pass under xdoctest with the same examples executed. Differential exploration against an "
              "independent, trusted implementation.")
LEVEL_ADDED = ('In a quarter of the texts runs of examples carry an indentation of their own (the standard module reads every example with the indentation of its prompt); the shape of finding F17 is kept out of 5 in 6 of the texts that would have it.')
LEVEL_NOTE = ("Trusted: CPython's doctest module as the oracle. Texts the standard module itself rejects are discarded and "
              "counted. Tabs in wants, wants beginning with '...', and doctest options xdoctest documents as unsupported "
              "are not generated.")
RULE = ("standard-syntax docstrings of 1-8 examples. Non-trivial: >= 3 examples, >= 1 want and >= 1 of {continuation lines, "
        "traceback, directive, <BLANKLINE>}. Distinct = distinct docstring text.")
ASSUMPTIONS = [
    "the standard library doctest module defines 'passes under the standard doctest module'",
    "generated examples are deterministic (no addresses, no dict/set ordering issues, no timing)",
]

KINDS = ['assign', 'echo', 'print', 'none', 'str', 'both', 'for', 'def', 'raise', 'mlit', 'semi', 'comment', 'printblank',
         'semiprint', 'ell', 'skip', 'nw', 'ied', 'forecho', 'if', 'try', 'raise_stmt', 'with', 'echo_after_print_stmt',
         'echolist', 'echodict', 'echobytes', 'echonone', 'class', 'mlecho', 'raise_called', 'whileecho', 'printml', 'ell_ml',
         'both_falsy', 'echo_falsy', 'print_then_falsy_semi', 'raise_syntax_eval', 'raise_syntax_exec', 'raise_indent_exec',
         'raise_syntax_compile', 'raise_chained', 'raise_multiline_msg', 'printblank2', 'printblank_only', 'printblank3_echo',
         'readprev', 'readprev', 'ied_dotted']
# exceptions whose class lives two or more modules deep: under IGNORE_EXCEPTION_DETAIL the standard module compares what follows
# the *last* dot before the first colon, so the want may spell the name bare, through an alias package or in full
DOTTED_RAISERS = ["__import__('json').loads({} or '{{')",
                  "__import__('xml.etree.ElementTree').etree.ElementTree.fromstring({} or '<a>')",
                  "__import__('importlib.metadata').metadata.version({} or 'no_such_pkg_zz')",
                  "(_ for _ in ()).throw(__import__('urllib.error').error.URLError({} or 'why'))"]
FALSY = ['0', '0.0', 'False', "''", '[]', '{}', '()', "b''", '0j']


def example_source(k, c):
    t = 'T.append({})'.format(k)
    pre = []
    if c == 'assign':
        src = ['x{0} = {1} or {0}'.format(k, t)]
    elif c == 'echo':
        src = ['({} or {}) + 1'.format(t, k)]
    elif c == 'print':
        src = ["print('p{}', {})".format(k, t)]
    elif c == 'printml':
        src = ["print('l1 {0}\\nl2 {0}\\nl3', {1})".format(k, t)]
    elif c == 'printblank':
        src = ["print('a{}\\n\\nb', {})".format(k, t)]
    elif c == 'printblank2':
        # several empty lines in a row: consecutive <BLANKLINE> markers in the want
        src = ["print('a{}\\n\\n\\nb', {})".format(k, t)]
    elif c == 'printblank_only':
        src = ["print('\\n', {})".format(t)]
    elif c == 'printblank3_echo':
        pre = [['def fblank(v):', "    print('x\\n\\n\\n\\ny')", '    return v']]
        src = ['fblank({} or {})'.format(t, k)]
    elif c == 'both':
        pre = [['def fboth(v):', "    print('in f', v)", '    return v + 2']]
        src = ['fboth({} or {})'.format(t, k)]
    elif c == 'both_falsy':
        # prints and returns a falsy, non-None value: the REPL shows the output followed by the value
        pre = [['def fz(v, r):', "    print('in fz', v)", '    return r']]
        src = ['fz({} or {}, {})'.format(t, k, FALSY[k % len(FALSY)])]
    elif c == 'echo_falsy':
        src = ['({} or {})'.format(t, FALSY[k % len(FALSY)])]
    elif c == 'print_then_falsy_semi':
        src = ["print('s{}'); ({} or {})".format(k, t, FALSY[k % len(FALSY)])]
    elif c == 'raise_syntax_eval':
        src = ["eval({} or '1 +')".format(t)]
    elif c == 'raise_syntax_exec':
        src = ["exec({} or 'def broken(:')".format(t)]
    elif c == 'raise_indent_exec':
        src = ["exec({} or 'if 1:\\nx = 1')".format(t)]
    elif c == 'raise_syntax_compile':
        src = ["compile({} or 'x = = 1', 'somefile.py', 'exec')".format(t)]
    elif c == 'raise_chained':
        src = ['try:', '    {}'.format(t), "    raise KeyError('inner {}')".format(k), 'except KeyError as ex:',
               "    raise ValueError('outer {}') from ex".format(k)]
    elif c == 'raise_multiline_msg':
        src = ["raise ValueError({} or 'line one {}\\nline two')".format(t, k)]
    elif c == 'for':
        src = ['for i in range(2):', '    print(i, {})'.format(t)]
    elif c == 'forecho':
        src = ['for i in range(2):', '    {} or i + 5'.format(t)]
    elif c == 'whileecho':
        src = ['n{} = 0'.format(k)]
        pre = []
        src = ['while {} is None and False:'.format(t), '    pass']
    elif c == 'def':
        src = ['def g{}():'.format(k), '    ' + t, '    return {}'.format(k)]
    elif c == 'class':
        src = ['class K{}:'.format(k), '    v = {} or {}'.format(t, k), '    def m(self):', '        return self.v']
    elif c == 'raise':
        src = ["int({} or 'z{}')".format(t, k)]
    elif c == 'raise_stmt':
        src = ["raise ValueError({} or 'bad {}: thing')".format(t, k)]
    elif c == 'raise_called':
        pre = [['def boom(m):', '    raise KeyError(m)']]
        src = ["boom({} or 'k{}')".format(t, k)]
    elif c == 'mlit':
        src = ['d{} = {{'.format(k), "    'a': {},".format(t), "    'b': {}}}".format(k)]
    elif c == 'mlecho':
        src = ['[{} or 1,'.format(t), " 'two', {}]".format(k)]
    elif c == 'semi':
        src = ['a{} = 1; {}'.format(k, t)]
    elif c == 'semiprint':
        src = ["print({}); {}; print('z')".format(k, t)]
    elif c == 'comment':
        src = ['# comment {}'.format(k)]
    elif c == 'ell':
        src = ['print(list(range(20)), {})  # doctest: +ELLIPSIS'.format(t)]
    elif c == 'ell_ml':
        src = ["print('start {0}\\nmiddle\\nend {0}', {1})  # doctest: +ELLIPSIS".format(k, t)]
    elif c == 'skip':
        src = ["print('skipme', {})  # doctest: +SKIP".format(t)]
    elif c == 'nw':
        src = ["print('a   b    c', {})  # doctest: +NORMALIZE_WHITESPACE".format(t)]
    elif c == 'ied':
        src = ["int({} or 'q{}')  # doctest: +IGNORE_EXCEPTION_DETAIL".format(t, k)]
    elif c == 'ied_dotted':
        src = [DOTTED_RAISERS[k % len(DOTTED_RAISERS)].format(t) + '  # doctest: +IGNORE_EXCEPTION_DETAIL']
    elif c == 'str':
        src = ["({} or 'a{}') + \"b'\"".format(t, k)]
    elif c == 'echolist':
        src = ["[{} or {}, 'x', 2.5]".format(t, k)]
    elif c == 'echodict':
        src = ["{{'k': {} or {}}}".format(t, k)]
    elif c == 'echobytes':
        src = ["({} or b'by{}')".format(t, k)]
    elif c == 'echonone':
        src = ['({} or None)'.format(t)]
    elif c == 'none':
        src = [t]
    elif c == 'if':
        src = ['if {} > 0:'.format(k), "    print('yes', {})".format(t), 'else:', "    print('no')"]
    elif c == 'try':
        src = ['try:', '    ' + t, '    1 / 0', 'except ZeroDivisionError as e:', "    print('caught', e)"]
    elif c == 'with':
        src = ["with open('/dev/null') as fh:", "    print('w', {})".format(t)]
    elif c == 'echo_after_print_stmt':
        src = ["print('x{}'); ({} or {})".format(k, t, k)]
    else:
        raise KeyError(c)
    return pre, src


class Rec(doctest.DocTestRunner):
    def __init__(self):
        super().__init__(verbose=False, optionflags=0)
        self.gots = []

    def report_start(self, out, test, example):
        pass

    def report_success(self, out, test, example, got):
        self.gots.append(got)

    def report_failure(self, out, test, example, got):
        self.gots.append(got)

    def report_unexpected_exception(self, out, test, example, exc_info):
        self.gots.append(('EXC', traceback.format_exception_only(*exc_info[:2])[-1]))


def layout(exs, wants, seps, indent, term_style, ex_inds=None):
    """ex_inds: blanks each example (its source and its want) is indented by on top of the common margin; the standard
    module reads every example with the indentation of its own prompt"""
    lines = []
    for i, ((src, c), w, sep) in enumerate(zip(exs, wants, seps)):
        own = ex_inds[i] if ex_inds else ''
        lines.append(own + '>>> ' + src[0])
        for s in src[1:]:
            lines.append(own + '... ' + s)
        if len(src) > 1 and term_style:
            lines.append(own + '...')
        if w:
            lines.extend(own + x for x in w)
        if sep == 'prose':
            lines += ['', 'Some prose here.', '']
        elif sep == 'blank':
            lines.append('')
    return '\n'.join(indent + ln if ln.strip() else '' for ln in lines) + '\n'


def run_stdlib(text, recorder=None):
    T = []
    test = doctest.DocTestParser().get_doctest(text, {'T': T}, 'case', 'case', 0)
    runner = recorder or doctest.DocTestRunner(verbose=False, optionflags=0)
    buf = io.StringIO()
    with contextlib.redirect_stdout(io.StringIO()):
        res = runner.run(test, out=buf.write, clear_globs=True)
    return res, T, buf.getvalue(), runner


@composite
def text_strategy(D, max_examples=8):
    exs = []
    defined = set()
    n = D.int(1, max_examples)
    assigned = []
    for k in range(1, n + 1):
        c = D.choice(KINDS)
        if c == 'readprev':
            # echo a name assigned by an earlier example (after whatever lies in between: wants, prose, other examples)
            if not assigned:
                c = 'assign'
            else:
                exs.append((['(T.append({}) or x{})'.format(k, assigned[-1])], 'readprev'))
                continue
        if c == 'assign':
            assigned.append(k)
        pre, src = example_source(k, c)
        for p in pre:
            if p[0] not in defined:
                defined.add(p[0])
                exs.append((p, 'helper'))
        exs.append((src, c))
    seps = [D.choice(['none', 'none', 'blank', 'prose']) for _ in exs]
    term = D.bool()
    indent = D.choice(['', '    ', '        '])
    # pass 1: let the standard module produce the outputs (REPL semantics)
    text0 = layout(exs, [None] * len(exs), ['blank'] * len(exs), '', True)
    rec = Rec()
    run_stdlib(text0, rec)
    gots = list(rec.gots)
    wants = []
    stack_choice = [D.int(0, 2) for _ in exs]
    for (src, c), sc in zip(exs, stack_choice):
        if c in ('comment', 'skip'):
            got = ''
        else:
            got = gots.pop(0) if gots else ''
        if isinstance(got, tuple):
            msg = got[1].rstrip('\n')
            if c == 'ied':
                msg = msg.split(':')[0] + ': different detail'
            if c == 'ied_dotted':
                full = msg.split('\n')[0].split(':')[0]
                comps = full.split('.')
                name = D.choice([full, comps[-1], comps[-1], comps[0] + '.' + comps[-1], '.'.join(comps[1:])])
                msg = name + D.choice([': different detail', ': other: detail', ''])
            stack = [[], ['    ...'], ['  File "<stdin>", line 1, in <module>', '    ...']][sc]
            w = ['Traceback (most recent call last):'] + stack + msg.split('\n')
        else:
            w = []
            if got:
                body = got[:-1] if got.endswith('\n') else got
                for ln in body.split('\n'):
                    w.append(ln if ln.strip() else '<BLANKLINE>')
            if c == 'ell' and w:
                w = [w[0].replace('2, 3, 4, 5, 6, 7, 8, 9, 10, 11, 12', '...')]
            if c == 'ell_ml' and len(w) == 3:
                w = [w[0], '...', w[2]]
            if c == 'skip':
                w = ['wrong output']
            if c == 'nw' and w:
                a = w[0].replace('a   b    c', 'a b\nc').split('\n')
                w = a
        wants.append(w)
    # most docstrings keep one margin; some indent a run of examples further (an indented 'Typical use:' block, ...)
    ex_inds, cur = [], ''
    varied = D.chance(1, 4)
    for _ in exs:
        if varied and D.chance(1, 3):
            cur = D.choice(['', '    ', '  '])
        ex_inds.append(cur)
    for i in range(len(exs) - 1):
        if ex_inds[i] != ex_inds[i + 1] and not wants[i] and seps[i] == 'none' and not D.chance(1, 6):
            seps[i] = 'blank'        # (mostly kept out of the way of finding F17, so that it does not mask anything else)
    shapes = set()
    for i in range(len(exs) - 1):
        if ex_inds[i] != ex_inds[i + 1]:
            shapes.add('indent_change_after_{}_{}'.format('sep' if seps[i] != 'none' else ('want' if wants[i] else 'wantless'),
                                                          'deeper' if len(ex_inds[i + 1]) > len(ex_inds[i]) else 'shallower'))
    text = layout(exs, wants, seps, indent, term, ex_inds)
    return {'text': text, 'kinds': [c for _, c in exs], 'shapes': sorted(shapes)}


def check_case(case, ctx):
    try:
        return _check_case(case, ctx)
    except Violation as v:
        odd = [sh for sh in case.get('shapes', []) if sh.startswith('indent_change_after_wantless_')]
        if odd and not v.key.startswith('indent_change_after_wantless'):
            # the text holds an example without a want that is directly followed by an example at another indentation: whatever
            # the symptom (example dropped, prompt line taken for a want, ...), it is reported under that shape (finding F17)
            raise Violation('indent_change_after_wantless:' + odd[0].rsplit('_', 1)[-1], '[{}] {}'.format(v.key, v.msg), case=getattr(v, 'case', None))
        raise


def _check_case(case, ctx):
    text = case['text']
    res, T1, report, _ = run_stdlib(text)
    if res.failed:
        return 'discarded'
    from xdoctest import core
    T2 = []
    with warnings.catch_warnings(record=True) as wl, contextlib.redirect_stdout(io.StringIO()):
        warnings.simplefilter('always')
        xs = list(core.parse_docstr_examples(text, callname='case', style='freeform'))
    if res.attempted == 0 and len(xs) == 0:
        return 'nothing'
    if len(xs) != 1:
        raise Violation('not_collected:{}'.format(len(xs)),
                        'passes under the standard module ({} examples) but xdoctest yields {} doctests ({})\n{}'.format(
                            res.attempted, len(xs), [str(w.message)[:200] for w in wl][:1], text))
    e = xs[0]
    e.mode = 'native'
    e.global_namespace['T'] = T2
    with contextlib.redirect_stdout(io.StringIO()):
        s = e.run(verbose=0, on_error='return')
    if res.attempted == 0:
        if s['failed']:
            raise Violation('nothing_attempted_but_failed', 'the standard module attempts nothing, xdoctest fails\n' + text)
        return 'nothing'
    if not s['passed']:
        why = type(s['exc_info'][1]).__name__ if s['exc_info'] else 'skipped'
        fp = e.failed_part
        kind = _failing_kind(case, fp)
        raise Violation('xdoctest_fails:{}:{}'.format(why, kind),
                        'passes under the standard doctest module but xdoctest reports {} ({})\n{}\n{}'.format(
                            'failed' if s['failed'] else 'skipped', why, text,
                            '\n'.join(e.repr_failure())[-800:] if s['failed'] else ''))
    if T1 != T2:
        raise Violation('trace_mismatch', 'examples executed: standard module {} xdoctest {}\n{}'.format(T1, T2, text))
    if case.get('wrap'):
        _check_wrapped(text, T1)
    return 'agree'


def _failing_kind(case, fp):
    try:
        first = fp.exec_lines[-1] if len(fp.exec_lines) == 1 else fp.exec_lines[0]
        import re
        m = re.search(r'T\.append\((\d+)\)', '\n'.join(fp.exec_lines))
        if m:
            k = int(m.group(1))
            kinds = [c for c in case.get('kinds', []) if c != 'helper']
            return kinds[k - 1]
    except Exception:
        pass
    return 'unknown'


def _check_wrapped(text, T1):
    """the same text inside a google 'Example:' block of a module file, run through doctest_module"""
    import xdoctest
    if '"""' in text:
        return
    name = sandbox.unique_name('vpc20')
    with sandbox.scratch('c20') as d:
        path = os.path.join(d, name + '.py')
        body = '\n'.join(('        ' + ln if ln.strip() else '') for ln in text.split('\n'))
        # the module's globals carry the names the examples assign (x1, x2, ...): the standard module copies the module
        # globals once per doctest, so a name rebound by one example stays rebound for the following ones
        mg = ''.join("x{} = 'module value'\n".format(k) for k in range(1, 13))
        src = 'T = []\n' + mg + '\n\ndef func():\n    r"""\n    Summary line.\n\n    Example:\n{}\n    """\n'.format(body)
        with open(path, 'w') as f:
            f.write(src)
        try:
            with sandbox.quiet():
                summary = xdoctest.doctest_module(path, command='all', verbose=0, style='google')
            import sys
            mod = sys.modules.get(name)
            T3 = list(getattr(mod, 'T', [])) if mod is not None else None
        finally:
            sandbox.purge_modules(name)
    if summary['n_failed'] or summary['n_passed'] != 1:
        raise Violation('wrapped_google:fails',
                        'the text passes stand-alone but as a google Example block of a module: {} failed, {} passed\n{}'.format(
                            summary['n_failed'], summary['n_passed'], src))
    if T3 is not None and T3 != T1:
        raise Violation('wrapped_google:trace', 'wrapped run executed {} expected {}\n{}'.format(T3, T1, src))


def _check(case, ctx):
    ctx.count()
    res = check_case(case, ctx)
    ctx.tag('result:' + str(res))
    kinds = case['kinds']
    for c in set(kinds):
        ctx.tag('kind:' + c)
    for sh in case.get('shapes', []):
        ctx.tag('shape:' + sh)
    text = case['text']
    if res == 'agree' and len(kinds) >= 3 and any(ln.strip() and not ln.strip().startswith(('>>>', '...')) for ln in text.split('\n')):
        if any(ln.strip().startswith('... ') for ln in text.split('\n')) or 'Traceback' in text or '# doctest:' in text \
                or '<BLANKLINE>' in text:
            ctx.nontriv(text, {'text': text})


@composite
def wrapped_strategy(D, max_examples=6):
    c = text_strategy.__wrapped__(D, max_examples) if hasattr(text_strategy, '__wrapped__') else None
    return c


def hyp_texts(ctx, n_examples, wrap_every=0):
    strat = text_strategy(8)
    if wrap_every:
        strat = strat.map(lambda c: dict(c, wrap=True))
    engine.hyp_run(ctx, strat, _check, n_examples)


def health(tot, tier):
    c = tot['classes']
    n = max(1, tot['evaluations'])
    if c.get('result:discarded', 0) > 0.05 * n:
        return 'the standard doctest module rejects {} of {} generated texts (> 5%)'.format(c.get('result:discarded'), n)
    return None


def selftest():
    res, T, rep, _ = run_stdlib('>>> T.append(1)\n>>> 1 + 1\n2\n')
    assert not res.failed and res.attempted == 2 and T == [1]
    res, T, rep, _ = run_stdlib('>>> 1 + 1\n3\n')
    assert res.failed
    for c in KINDS:
        if c != 'readprev':
            example_source(1, c)


def jobs(tier):
    per = 1200 if tier == 'quick' else 15000
    out = [('hyp_texts#%d' % s, 'hyp_texts', dict(n_examples=per)) for s in range(14)]
    out += [('hyp_wrapped#%d' % s, 'hyp_texts', dict(n_examples=per // 5, wrap_every=1)) for s in range(2)]
    return out
