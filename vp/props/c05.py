"""
C05 — Output matching equals the documented relation for every flag combination.

(1) exhaustive: all (got, want) pairs over small alphabets up to a length bound
    x all 32 flag settings, against the reference normaliser (vp/ref/normaliser.py)
    and three laws checked on the implementation alone (exactness with all
    leniencies off, monotonicity, no match across a non-whitespace difference);
(2) Hypothesis token sequences and derived pairs beyond the bound (ANSI codes,
    <BLANKLINE> lines, prefixed literals, long whitespace runs);
(3) end to end: a one-statement doctest printing the got, with the flags as a
    block directive, must give the verdict the reference gives.
"""
import itertools
import re

from hypothesis import strategies as st

from vp import engine
from vp.engine import Violation
from vp.ref import normaliser as ref

ID = 'C05'
TECHNIQUE = ('exhaustive enumeration of small (got, want) pairs x 32 flag settings against a reference '
             'normaliser + metamorphic laws (exactness, monotonicity, whitespace-only leniency); '
             'Hypothesis token sequences beyond the bound; end-to-end doctest runs')
RULE = ("(got, want) pairs: all strings over a 7-letter alphabet up to length n (both sides, two alphabets), each "
        "under all 32 flag settings; plus Hypothesis token sequences / derived pairs. Non-trivial: got != want and "
        "the 32 verdicts are not all equal (the flags matter for the pair). Distinct = distinct (got, want).")
ASSUMPTIONS = [
    "the reference normaliser is written from the statement; where the statement admits several readings "
    "(classes a-e in vp/ref/normaliser.py) nothing is asserted and the case is counted as ambiguous",
    "carriage returns are outside every alphabet (the 'invisible text' rule is not part of the statement)",
    "CPython re / str methods are correct",
]

A1 = "a \n\t.'u"
A2 = "ab\"' \n."
A3 = "ax1 \t\n"

LEN = {'quick': 3, 'thorough': 4}
E, NW, IW, NR, DAB = ref.E, ref.NW, ref.IW, ref.NR, ref.DAB
LENIENT_ON = (E, NW, IW, NR)


def _xd():
    from xdoctest import checker, directive
    return checker, directive


_STATES = None


def states():
    global _STATES
    if _STATES is None:
        checker, directive = _xd()
        _STATES = []
        for idx in range(32):
            rs = directive.RuntimeState()
            for k, v in ref.flags_of(idx).items():
                rs[k] = v
            _STATES.append(rs)
    return _STATES


def impl_all(got, want):
    checker, _ = _xd()
    co = checker.check_output
    return [bool(co(got, want, s)) for s in states()]


def selftest():
    ref.selftest()
    from vp.ref import ellipsis
    ellipsis.selftest()
    # the harness can tell a correct from a wrong implementation on the F8 input
    r = ref.ref_all("'", ' ')
    assert r[NR] is False
    assert len(states()) == 32 and states()[E]['ELLIPSIS'] and not states()[0]['ELLIPSIS']
    assert states()[DAB]['DONT_ACCEPT_BLANKLINE']


def fname(idx):
    return '+'.join(n for i, n in enumerate(ref.FLAGS) if idx & (1 << i)) or 'none'


_DOTS4 = re.compile(r'\.{4,}')
_WS = re.compile(r'\s')
_ANSI = re.compile(r'\x1b\[[0-9;?]*[A-Za-z]')


def check_pair(got, want, act=None):
    """Raises Violation if the implementation breaks clause 1 or law L2 on this pair.
    Returns (exp, act)."""
    if act is None:
        act = impl_all(got, want)
    exp = ref.ref_all(got, want)
    for idx in range(32):
        if exp[idx] is not None and exp[idx] != act[idx]:
            kind = 'false_match' if act[idx] else 'false_mismatch'
            key = 'relation:{}:{}'.format(kind, _clause_hint(got, want, idx))
            raise Violation(key, 'check_output({!r}, {!r}) under [{}] = {} but the documented relation gives {}'.format(
                got, want, fname(idx), act[idx], exp[idx]))
    # L2 monotone: one more leniency never turns a match into a mismatch
    # (runs of >= 4 dots have no defined tokenisation - section 6.6 - also when whitespace deletion or the removal of
    #  a <BLANKLINE> marker that is not alone on its line is what fuses a literal dot with a wildcard)
    if want and not _DOTS4.search(_WS.sub('', _ANSI.sub('', want).replace(ref.MARK, ''))):
        for idx in range(32):
            if not act[idx]:
                continue
            for bit in LENIENT_ON:
                if not idx & bit and not act[idx | bit]:
                    raise Violation('L2:monotone:' + ref.FLAGS[bit.bit_length() - 1],
                                    'pair ({!r}, {!r}) matches under [{}] but not after also enabling {}'.format(
                                        got, want, fname(idx), ref.FLAGS[bit.bit_length() - 1]))
            if idx & DAB and not act[idx & ~DAB] and ref.MARK not in got and not ref.marker_not_alone(want):
                raise Violation('L2:monotone:ACCEPT_BLANKLINE',
                                'pair ({!r}, {!r}) matches under [{}] but not after accepting <BLANKLINE>'.format(
                                    got, want, fname(idx)))
    return exp, act


def _clause_hint(got, want, idx):
    """coarse root-cause hint used to key findings"""
    hints = []
    if '\x1b' in got + want:
        hints.append('ansi')
    if re.search(r'''[uUbB][rR]?['"]''', got + want):
        hints.append('prefix')
    if ref.MARK in want:
        hints.append('blankline')
    if re.search(r'[ \t]+(\n|$)', got + '\n' + want) or got.rstrip() != got or want.rstrip() != want:
        hints.append('trailing_ws')
    if idx & (NW | IW):
        hints.append('ws_flag')
    if '...' in want:
        hints.append('ellipsis' if idx & E else 'ellipsis_off')
    if idx & NR and (ref.unquote(got.strip()) is not None or ref.unquote(want.strip()) is not None or "'" in got + want
                     or '"' in got + want):
        hints.append('repr')
    return '/'.join(hints) or 'plain'


def check_case(case, ctx):
    """case = {'got', 'want', optional 'e2e': flag index}"""
    got, want = case['got'], case['want']
    kind = case.get('kind', 'pair')
    if kind == 'pair':
        check_pair(got, want)
    elif kind == 'L3':
        _check_l3(got, want)
    elif kind == 'e2e':
        _check_e2e(got, want, case['idx'])


def _check_l3(got, want, act=None):
    if not want:
        return
    if _WS.sub('', got) != _WS.sub('', want):
        act = act or impl_all(got, want)
        for idx in range(32):
            if act[idx]:
                raise Violation('L3:nonws_difference_matches',
                                'texts {!r} / {!r} differ in a non-whitespace character but match under [{}]'.format(
                                    got, want, fname(idx)))


# ---------------------------------------------------------------------------
# exhaustive part


def _strings(alpha, maxlen):
    out = []
    for n in range(maxlen + 1):
        for tup in itertools.product(alpha, repeat=n):
            out.append(''.join(tup))
    return out


def enum_pairs(ctx, shard, nshards, alpha, n):
    strings = _strings(alpha, n)
    wants = [w for w in strings if w][shard::nshards]
    checker, _ = _xd()
    co = checker.check_output
    sts = states()
    nontriv = 0
    amb = 0
    asserted = 0
    sample = None
    quotefree = ("'" not in alpha and '"' not in alpha)
    for want in wants:
        for got in strings:
            act = [bool(co(got, want, s)) for s in sts]
            try:
                exp, _ = check_pair(got, want, act)
                # L1: every leniency off -> exact up to trailing whitespace (prefix/ANSI free texts only)
                if "'" not in got + want and '"' not in got + want:
                    e1 = (got == want) or (ref.strip_trailing(got) == ref.strip_trailing(want))
                    if act[DAB] != e1:
                        raise Violation('L1:exact_when_strict',
                                        'with every leniency off check_output({!r}, {!r}) = {} but the texts {} up to '
                                        'trailing whitespace'.format(got, want, act[DAB], 'agree' if e1 else 'differ'))
            except Violation as v:
                ctx.fail(v.key, v.msg, {'got': got, 'want': want, 'kind': 'pair'})
                continue
            n_none = exp.count(None)
            amb += n_none
            asserted += 32 - n_none
            if got != want and 0 < sum(act) < 32:
                nontriv += 1
                if sample is None and shard == 3:
                    sample = {'got': got, 'want': want,
                              'matching_flag_sets': [fname(i) for i in range(32) if act[i]][:6]}
    ctx.count(len(wants) * len(strings) * 32)
    ctx.nontriv_bulk(nontriv, sample)
    ctx.classes['enum:evaluations(pairs x 32 flags)'] += len(wants) * len(strings) * 32
    ctx.classes['enum:asserted_against_reference'] += asserted
    ctx.classes['enum:ambiguous_not_asserted'] += amb
    if shard == 0:
        ctx.exhaustive.append('all {0} x {0} (got, want) pairs over {1!r} up to length {2} x 32 flag settings'.format(
            len(strings), alpha, n))


def enum_l3(ctx, shard, nshards, n):
    strings = _strings(A3, n)
    wants = [w for w in strings if w][shard::nshards]
    checker, _ = _xd()
    co = checker.check_output
    sts = states()
    cnt = 0
    for want in wants:
        wk = _WS.sub('', want)
        for got in strings:
            if _WS.sub('', got) == wk:
                continue
            cnt += 1
            for idx, s in enumerate(sts):
                if co(got, want, s):
                    ctx.fail('L3:nonws_difference_matches',
                             'texts {!r} / {!r} differ in a non-whitespace character but match under [{}]'.format(
                                 got, want, fname(idx)), {'got': got, 'want': want, 'kind': 'L3'})
                    break
    ctx.count(cnt * 32)
    ctx.classes['enum:L3 evaluations'] += cnt * 32
    if shard == 0:
        ctx.exhaustive.append('L3: all pairs over {!r} up to length {} that differ after deleting whitespace x 32'.format(A3, n))


# ---------------------------------------------------------------------------
# Hypothesis part

TOKENS = ['a', 'x', 'foo', '1', ' ', '  ', '\t', '\n', '\n\n', '.', '...', '....', "'", '"', 'u', 'b', 'r', 'U', 'B',
          "u'", 'b"', "ur'", 'Br"', "'s'", '"d"', '\x1b[31m', '\x1b[0m', '\x1b[1;32m', '\n<BLANKLINE>\n',
          '<BLANKLINE>', ',', '(', ')', '[', ']', '{', '}', ':', '=', '-', '_', 'é', '0.5']

tok_text = st.lists(st.sampled_from(TOKENS), min_size=0, max_size=12).map(''.join)


@st.composite
def pair_strategy(draw):
    want = draw(tok_text)
    mode = draw(st.sampled_from(['indep', 'same', 'ellipsis', 'reflow', 'trail', 'quote_got', 'quote_want',
                                 'colour', 'prefix', 'blank', 'mutate', 'mutate', 'ellipsis_multi', 'ellipsis_dup']))
    got = want
    if mode == 'indep':
        got = draw(tok_text)
    elif mode == 'ellipsis':
        # replace substrings of the got by '...' in the want
        got = draw(tok_text)
        n = len(got)
        cuts = sorted(draw(st.lists(st.integers(0, n), min_size=2, max_size=4)))
        a, b = cuts[0], cuts[-1]
        want = got[:a] + draw(st.sampled_from(['...', ' ... ', '...\n'])) + got[b:]
    elif mode in ('ellipsis_multi', 'ellipsis_dup'):
        # few distinct words, so that the literal pieces of the want occur several times in the got: two or three
        # wildcards; 'dup' demands the tail once more than it occurs (only overlapping pieces could satisfy that)
        words = draw(st.lists(st.sampled_from(['a', 'b', 'ab', 'a', 'x=1']), min_size=1, max_size=7))
        seps = [draw(st.sampled_from([' ', ' ', '\n', ''])) for _ in words]
        got = ''.join(w + s_ for w, s_ in zip(words, seps)).strip() or 'a'
        n = len(got)
        k = draw(st.integers(2, 3))
        cuts = sorted(draw(st.lists(st.integers(0, n), min_size=2 * k, max_size=2 * k)))
        parts, pos = [], 0
        for i in range(k):
            parts.append(got[pos:cuts[2 * i]])
            parts.append(draw(st.sampled_from(['...', ' ... ', '...'])))
            pos = cuts[2 * i + 1]
        parts.append(got[pos:])
        want = ''.join(parts)
        if mode == 'ellipsis_dup':
            tail = got[-draw(st.integers(1, min(3, n))):]
            want = want + '...' + tail
    elif mode == 'reflow':
        got = re.sub(r'[ \t\n]+', lambda m: draw(st.sampled_from([' ', '  ', '\n', ' \n ', '\t'])), want)
    elif mode == 'trail':
        got = '\n'.join(ln + draw(st.sampled_from(['', ' ', '\t', '  '])) for ln in want.split('\n'))
        got += draw(st.sampled_from(['', '\n', '\n\n', ' \n']))
    elif mode == 'quote_got':
        q = draw(st.sampled_from('\'"'))
        got = q + want + q
    elif mode == 'quote_want':
        got = draw(tok_text)
        q = draw(st.sampled_from('\'"'))
        want = q + got + q
    elif mode == 'colour':
        got = '\x1b[31m' + want + '\x1b[0m'
    elif mode == 'prefix':
        got = re.sub(r'''(?<![A-Za-z0-9_])(?=['"])''', lambda m: draw(st.sampled_from(['u', 'b', '', 'U'])), want)
    elif mode == 'blank':
        got = '\n'.join('' if ln == '<BLANKLINE>' else ln for ln in want.split('\n'))
    elif mode == 'mutate':
        base = draw(st.sampled_from(['same', 'reflow']))
        got = want if base == 'same' else re.sub(r'[ \t\n]+', ' ', want)
        if got:
            i = draw(st.integers(0, len(got) - 1))
            got = got[:i] + draw(st.sampled_from(['z', 'q', '', '!', ' '])) + got[i + 1:]
    return {'got': got, 'want': want, 'mode': mode, 'kind': 'pair'}


def _check_hyp(case, ctx):
    ctx.count(32)
    got, want = case['got'], case['want']
    ctx.tag('hyp:mode:' + case['mode'])
    if not want:
        ctx.tag('hyp:empty_want')
        return
    act = impl_all(got, want)
    exp, _ = check_pair(got, want, act)
    ctx.classes['hyp:ambiguous_not_asserted'] += exp.count(None)
    ctx.classes['hyp:asserted'] += 32 - exp.count(None)
    if '\x1b' in got + want:
        ctx.tag('hyp:has_ansi')
    if ref.MARK in want:
        ctx.tag('hyp:has_blankline_marker')
    if got != want and 0 < sum(act) < 32:
        ctx.nontriv((got, want), {'got': got, 'want': want, 'matching_flag_sets': [fname(i) for i in range(32) if act[i]][:5]})


def hyp_pairs(ctx, n_examples):
    engine.hyp_run(ctx, pair_strategy(), _check_hyp, n_examples)


# ---------------------------------------------------------------------------
# end to end


def _e2e_ok_want(want):
    lines = want.split('\n')
    if not want or any((not ln.strip()) for ln in lines):
        return False
    for ln in lines:
        if ln != ln.strip() or ln.startswith(('>>>', '...', '#')):
            return False
    if '\x1b' in want or '\t' in want:
        return False
    return True


def _check_e2e(got, want, idx):
    from xdoctest import core, checker
    import contextlib
    import io
    flags = ref.flags_of(idx)
    direc = ', '.join(('+' if v else '-') + k for k, v in sorted(flags.items()))
    doc = '>>> # xdoctest: {}\n>>> print({!r})\n{}\n'.format(direc, got, want)
    exp = ref.ref_all(got + '\n', want)[idx]
    if exp is None:
        return None
    with contextlib.redirect_stdout(io.StringIO()):
        examples = list(core.parse_docstr_examples(doc, callname='e2e', style='freeform'))
    if len(examples) != 1:
        raise Violation('e2e:not_one_doctest', 'docstring {!r} gave {} doctests'.format(doc, len(examples)))
    with contextlib.redirect_stdout(io.StringIO()):
        summary = examples[0].run(on_error='return', verbose=0)
    if summary['passed'] != exp:
        raise Violation('e2e:verdict:' + ('false_pass' if summary['passed'] else 'false_fail'),
                        'doctest {!r} {} but the documented relation for got={!r} want={!r} under [{}] is {}'.format(
                            doc, 'passed' if summary['passed'] else 'failed', got + '\n', want, fname(idx), exp))
    if not exp:
        ex = summary['exc_info'][1]
        if not isinstance(ex, checker.GotWantException):
            raise Violation('e2e:wrong_exception', 'expected GotWantException, got {!r}'.format(ex))
    return exp


@st.composite
def e2e_strategy(draw):
    c = draw(pair_strategy())
    c['idx'] = draw(st.integers(0, 31))
    c['kind'] = 'e2e'
    return c


def _check_e2e_hyp(case, ctx):
    ctx.count()
    got, want = case['got'], case['want']
    if not _e2e_ok_want(want) or '\r' in got:
        ctx.tag('e2e:want_not_layoutable')
        return
    exp = _check_e2e(got, want, case['idx'])
    ctx.tag('e2e:run', 'e2e:expected_' + str(exp))
    if exp is not None and got + '\n' != want + '\n' and got != want:
        ctx.nontriv(('e2e', got, want, case['idx']))


def hyp_e2e(ctx, n_examples):
    engine.hyp_run(ctx, e2e_strategy(), _check_e2e_hyp, n_examples)


def jobs(tier):
    n = LEN[tier]
    nsh = 16 if tier == 'quick' else 96
    out = []
    for s in range(nsh):
        out.append(('enum_A1#%d' % s, 'enum_pairs', dict(shard=s, nshards=nsh, alpha=A1, n=n)))
    for s in range(nsh):
        out.append(('enum_A2#%d' % s, 'enum_pairs', dict(shard=s, nshards=nsh, alpha=A2, n=n)))
    nl3 = 8 if tier == 'quick' else 16
    for s in range(nl3):
        out.append(('enum_L3#%d' % s, 'enum_l3', dict(shard=s, nshards=nl3, n=n)))
    per = 1200 if tier == 'quick' else 30000
    for s in range(16):
        out.append(('hyp_pairs#%d' % s, 'hyp_pairs', dict(n_examples=per)))
    for s in range(8):
        out.append(('hyp_e2e#%d' % s, 'hyp_e2e', dict(n_examples=per // 4)))
    return out
