"""
C18 — Displayed doctest source is faithful and re-parses to the same doctest.

Doctests of the C01 program generator are formatted with every option set;
the text must hold each source and want line once and in order, re-parse to the
same executable lines / wants / modes, and every displayed line number must be
the line's position in the doctest (or file).
"""
import contextlib
import io
import re
import warnings

from vp import engine
from vp.engine import Violation
from vp.gen import programs
from vp.gen.draw import composite

ID = 'C18'
DESIGN_REF = '6.18'
TECHNIQUE = ('Hypothesis programs (C01 generator) x formatting options; round trip format -> re-parse and '
             'by-construction line content / line numbers')
LEVEL_TEXT = ("Doctests from the C01 program generator (bare docstrings in freeform and google style, at a random file "
              "offset) are formatted with prefix on/off x want on/off x line numbers off / doctest-relative / file-relative; "
              "the displayed lines must be exactly the generator's source and want lines in order, the re-parsed text must "
              "give the same executable lines, wants and compile modes, and every number must equal the by-construction "
              "position. Randomised exploration with shrinking.")
LEVEL_ADDED = ("The doctest's own offset_linenos setting is drawn (unset / True / False) and numbering is requested as False, True and None (the setting only speaks for None); wants indented as a whole relative to their prompt are generated. Google blocks use the tags Example: / Example:: / Examples:: / Doctest:, with or without an empty line under the tag; the summary line may hold characters only str.splitlines() takes for line ends.")
LEVEL_NOTE = ("Trusted: the generator's per-line bookkeeping. Want-less parts separated only by prose legitimately merge on "
              "re-parse, so parts are compared as a canonical sequence (executable lines since the previous want, want, "
              "mode), not by part boundaries; colours are not exercised.")
RULE = ("programs from the C01 generator x 12 option sets. Non-trivial: >= 2 parts, >= 1 multi-line statement and >= 1 want "
        "of >= 2 lines. Distinct = distinct docstring text.")
ASSUMPTIONS = ["docstring line k is file line lineno + k (no escapes in docstrings)"]


def parse(doc, style='freeform', lineno=1):
    from xdoctest import core
    with warnings.catch_warnings(record=True) as wl, contextlib.redirect_stdout(io.StringIO()):
        warnings.simplefilter('always')
        xs = list(core.parse_docstr_examples(doc, callname='c18', style=style, lineno=lineno))
    return xs, wl


def canon(ex):
    out = []
    acc = []
    for p in ex._parts:
        acc += [ln for ln in p.exec_lines if ln != '']
        if p.want_lines:
            out.append((tuple(acc), tuple(p.want_lines), p.compile_mode))
            acc = []
    if acc:
        out.append((tuple(acc), None, 'exec'))
    return out


def check_case(case, ctx):
    doc = case['doc']
    lineno = case.get('lineno', 1)
    style = case.get('style', 'freeform')
    text = doc
    first_prompt_shift = 0
    if style == 'google':
        # wrap in a google block: a tag line then the docstring indented by four
        body = '\n'.join(('    ' + ln if ln.strip() else ln) for ln in doc.split('\n'))
        # the tag in its plain and its reST form ('Example::'), with or without an empty line under it
        label = case.get('label', 'Example:')
        gap = 1 if case.get('gap_after_label') else 0
        # (characters that str.splitlines() breaks at but that do not end a line of the file may sit in the prose)
        text = 'Summary{}.\n\n'.format(case.get('odd_char') or '') + label + '\n' + '\n' * gap + body
        first_prompt_shift = 3 + gap
    xs, wl = parse(text, style, lineno)
    if len(xs) != 1:
        raise Violation('not_collected:{}'.format(len(xs)), 'docstring yields {} doctests ({})\n{}'.format(
            len(xs), [str(w.message)[:200] for w in wl][:1], text))
    ex = xs[0]
    labels = case['labels']
    fmt_lines = case['fmt_lines']
    exec_lines = case['exec_lines']
    # ---- (1) content of the formatted text
    f_full = ex.format_src(linenos=False, colored=False, want=True, prefix=True).split('\n')
    if f_full != fmt_lines:
        raise Violation('format:content', _difflines('format_src(want=True, prefix=True)', f_full, fmt_lines, doc))
    src_only = [f for f, (lab, _) in zip(fmt_lines, [l for l in labels if l[0] != 'text']) if lab == 'src']
    f_nowant = ex.format_src(linenos=False, colored=False, want=False, prefix=True).split('\n')
    if f_nowant != src_only:
        raise Violation('format:want_off', _difflines('format_src(want=False)', f_nowant, src_only, doc))
    f_noprefix = ex.format_src(linenos=False, colored=False, want=False, prefix=False).split('\n')
    # an empty executable line that stems from a bare '...' terminator may be dropped at the end of a part
    term = [f == '...' and e == '' for f, e in zip(src_only, exec_lines)]
    j = 0
    for e, is_term in zip(exec_lines, term):
        if j < len(f_noprefix) and f_noprefix[j] == e:
            j += 1
        elif not is_term:
            raise Violation('format:prefix_off', _difflines('format_src(prefix=False, want=False)', f_noprefix, exec_lines, doc))
    if j != len(f_noprefix):
        raise Violation('format:prefix_off', _difflines('format_src(prefix=False, want=False)', f_noprefix, exec_lines, doc))
    # ---- (2) re-parse
    ys, wl2 = parse('\n'.join(f_full) + '\n', 'freeform', 1)
    if len(ys) != 1:
        raise Violation('reparse:not_collected:{}'.format(len(ys)), 'formatted text yields {} doctests ({})\n{}'.format(
            len(ys), [str(w.message)[:200] for w in wl2][:1], '\n'.join(f_full)))
    a, b = canon(ex), canon(ys[0])
    if a != b:
        what = 'modes' if [(x[0], x[1]) for x in a] == [(x[0], x[1]) for x in b] else 'lines'
        raise Violation('reparse:' + what, 're-parsing the formatted text changes the doctest:\n  before {}\n  after  {}\n{}'.format(
            a, b, '\n'.join(f_full)))
    # ---- (3) line numbers
    doc_index = [i for i, (lab, _) in enumerate(labels) if lab != 'text']
    first = min(i for i, (lab, _) in enumerate(labels) if lab == 'src')
    kinds = [lab for lab, _ in labels if lab != 'text']
    # the doctest's own configuration (what --offset stores) only speaks when the caller leaves the choice open (None)
    conf = case.get('config_offset')
    if conf is not None:
        ex.config['offset_linenos'] = conf
    for asked in (False, True, None):
        offset_linenos = bool(conf) if asked is None else asked
        f_num = ex.format_src(linenos=True, colored=False, want=True, prefix=True, offset_linenos=asked).split('\n')
        if len(f_num) != len(fmt_lines):
            raise Violation('linenos:line_count', 'numbered text has {} lines, expected {}\n{}'.format(
                len(f_num), len(fmt_lines), '\n'.join(f_num)))
        widths = set()
        for got, plain, di, kind in zip(f_num, fmt_lines, doc_index, kinds):
            if kind == 'src':
                m = re.match(r'^( *\d+) (.*)$', got, re.DOTALL)
                if not m or m.group(2) != plain:
                    if not (m and plain == '' and m.group(2) == ''):
                        raise Violation('linenos:column', 'numbered line {!r} does not give back {!r}\n{}'.format(
                            got, plain, '\n'.join(f_num)))
                widths.add(len(m.group(1)))
                num = int(m.group(1))
                rel = di - first + 1
                exp = (lineno + first_prompt_shift + di) if offset_linenos else rel
                if not offset_linenos and style == 'google' and case.get('gap_after_label'):
                    # where a google block with an empty first line "starts" is finding F7 (C08): doctest-relative numbers count
                    # from there; only the file-relative numbers are asserted for such blocks
                    exp = num
                if num != exp:
                    raise Violation('linenos:number:' + ('file' if offset_linenos else 'doctest'),
                                    'line {!r} is numbered {} but it is line {} of the {}\n{}'.format(
                                        plain, num, exp, 'file' if offset_linenos else 'doctest', '\n'.join(f_num)))
            else:
                if got.strip() != plain.strip() or re.match(r'^ *\d+ ', got) and not re.match(r'^ *\d+ ', plain):
                    raise Violation('linenos:want_line', 'want line {!r} shown as {!r}\n{}'.format(plain, got, '\n'.join(f_num)))


def _difflines(what, got, exp, doc):
    for i, (g, e) in enumerate(zip(got, exp)):
        if g != e:
            return '{}: line {} is {!r}, expected {!r}\n{}'.format(what, i, g, e, doc)
    return '{}: {} lines, expected {} (first missing/extra: {!r})\n{}'.format(
        what, len(got), len(exp), (got[len(exp):] or exp[len(got):])[:1], doc)


@composite
def case_strategy(D, max_groups):
    c = programs.gen_program(D, max_groups=max_groups)
    c['lineno'] = D.choice([1, 1, 7, 95, 998])
    c['style'] = D.choice(['freeform', 'freeform', 'google'])
    c['config_offset'] = D.choice([None, None, True, False])
    c['label'] = D.choice(['Example:', 'Example:', 'Example::', 'Doctest:', 'Examples::'])
    c['gap_after_label'] = D.chance(1, 3)
    c['odd_char'] = D.choice([None, None, None, '\x0c', '\x0b', '\x1c', '\x85', '\u2028', ' \x1e '])
    return c


def _check(case, ctx):
    ctx.count()
    groups = case['groups']
    ctx.tag('style:' + case['style'], 'lineno:' + str(case['lineno']), 'config_offset:' + str(case.get('config_offset')))
    if case['style'] == 'google' and 'leading_prose' in case['features']:
        # the reported start line of a google block whose body does not begin with a prompt is finding F7 (C08);
        # such blocks are not used here
        ctx.tag('skipped:google_leading_prose')
        return
    multi = any(g['nlines'] > 1 for g in groups)
    want2 = any(g['want'] and len(g['want']) >= 2 for g in groups)
    if len(groups) >= 2 and multi and want2:
        ctx.nontriv(case['doc'] + case['style'], {'doc': case['doc'], 'style': case['style'], 'lineno': case['lineno']})
    check_case(case, ctx)


def hyp_programs(ctx, n_examples, max_groups):
    engine.hyp_run(ctx, case_strategy(max_groups), _check, n_examples)


def selftest():
    class P(object):
        def __init__(self, e, w, m):
            self.exec_lines, self.want_lines, self.compile_mode = e, w, m

    class E(object):
        _parts = [P(['x = 1', ''], None, 'exec'), P(['print(x)'], ['1'], 'eval'), P(['y = 2'], None, 'exec')]
    assert canon(E) == [(('x = 1', 'print(x)'), ('1',), 'eval'), (('y = 2',), None, 'exec')]


def jobs(tier):
    per, mg = (700, 8) if tier == 'quick' else (12000, 12)
    return [('hyp_programs#%d' % s, 'hyp_programs', dict(n_examples=per, max_groups=mg)) for s in range(16)]
