"""
C08 — Reported line numbers point at the real lines of the source file.

Generated modules (G3) in which every doctest has a designated outcome
(passes / raises at a chosen statement, on an inner line of a multi-line
statement, inside module code, inside a helper defined by an earlier part /
wrong want) are collected from disk and run.  The generator knows the file
line of every docstring line; for exceptions CPython itself gives the failing
line (the de-prompted doctest laid out with one program line per file line).
"""
import os
import re

from vp import engine, sandbox
from vp.engine import HarnessError, Violation
from vp.gen import modules
from vp.gen.draw import composite
from vp.props import c07
from vp.ref import pyexec

ID = 'C08'
DESIGN_REF = '6.8'
TECHNIQUE = ('Hypothesis-generated modules with designated failing statements x style; oracle = file lines known by '
             'construction, cross-checked for exceptions against the traceback of a CPython reference execution laid '
             'out line for line')
LEVEL_TEXT = ("Generated importable modules (docstrings opened on their own line or sharing the line with text, all quote "
              "forms and prefixes, decorators and decorator lists, multi-line signatures, class / method nesting, "
              "definitions under if/try/with, google blocks with and without leading prose, freeform groups separated by "
              "prose at two indentations, blocks under a freeform skip word (DisableDoctest: / Ignore: / Script: ...) before a group, preceding multi-line statements and multi-line wants) whose doctests pass or fail "
              "at a designated statement in one of nine ways (raise directly, a SyntaxError raised at run time by compile(), on the 2nd/3rd line of a multi-line "
              "statement in both prompt styles, inside module code, inside a helper defined by an earlier longer / shorter "
              "part, wrong want of 1-3 lines, wrong want after a multi-line statement) are collected in the styles auto, "
              "google and freeform and run: the start line must be the file line of the first prompt, every part's offset "
              "must locate its first source line in the file, failed_lineno() must be the by-construction failing line "
              "(which for exceptions must also be what CPython's own traceback gives) and repr_failure() must print the same "
              "number. Randomised exploration with shrinking.")
LEVEL_ADDED = ("A quarter of the module files are written over an earlier layout of themselves that was collected a moment before (positions are those of the file as it is now); files may open with blank lines. 'Args:' prose may hold characters only str.splitlines() takes for line ends (finding F18); a tenth failing kind is a directive that cannot be applied, on a later statement.")
LEVEL_NOTE = ("Trusted: the generator's line bookkeeping (self-checked against the file text and against CPython's traceback "
              "on every case). Docstrings with escapes that create or remove newlines are outside the domain. Finding F7 "
              "(start line of a google block whose body does not begin with a prompt) is a known finding keyed on exactly "
              "that layout; part offsets and failing lines stay asserted for it.")
RULE = ("modules of 2-6 top-level items x 3 styles, each doctest run once. Non-trivial doctest: it fails, not on its first "
        "line, and >= 2 of {multi-line statement before, multi-line want before, failure inside a multi-line statement or a "
        "helper, docstring with prefix or shared first line, google block index > 0 or leading prose} hold. Distinct = "
        "(module source, style, doctest).")
ASSUMPTIONS = [
    "docstring text has no backslash escapes or continuations, so docstring line k is file line start + k",
    "the failing line of an exception is the line CPython reports for the outermost frame inside the doctest",
]
STYLES = ['auto', 'google', 'freeform']
FAIL_KINDS = (None, None, 'exc', 'exc_multi', 'exc_multi_new', 'want', 'want_after_multi', 'want_after_bare', 'rt_syntax', 'modfunc', 'helper_long', 'helper_short', 'bad_directive')


def ref_fail_line(lines, x):
    """file line CPython reports for the first exception of the doctest described by inventory entry x"""
    prog = {}
    for a, b in x['spans']:
        for ln in range(a, b + 1):
            s = lines[ln - 1].lstrip()
            if s.startswith(('>>> ', '... ')):
                prog[ln] = s[4:]
    last = max(prog)
    src = '\n'.join(prog.get(i, '') for i in range(1, last + 1)) + '\n'
    ns = {}
    exec(compile("def vp_module_boom(x):\n    raise ValueError('module code fails {}'.format(x))\n", '<mod>', 'exec'), ns)
    res = pyexec.run_program(src, ns)
    if res['exc'] is None:
        return None, None
    return (res['tb_lines'][0] if res['tb_lines'] else None), type(res['exc']).__name__


def check_case(case, ctx):
    from xdoctest import core
    from xdoctest.doctest_part import DoctestPart
    lines = case['lines']
    name = sandbox.unique_name('vpc08')
    with sandbox.scratch('c08') as d:
        path = os.path.join(d, name + '.py')
        if case.get('rewritten'):
            # the path held another layout a moment ago and was collected then: positions are those of the file as it is now
            with open(path, 'w') as f:
                f.write('\n'.join(modules.decoy_lines(lines)) + '\n')
            with sandbox.quiet():
                list(core.parse_doctestables(path, style=STYLES[0], analysis='static'))
        with open(path, 'w') as f:
            f.write('\n'.join(lines) + '\n')
        try:
            for style in case.get('styles', STYLES):
                with sandbox.quiet():
                    exs = list(core.parse_doctestables(path, style=style, analysis='static'))
                exp = {(x['callname'], x['num']): x for x in modules.expected_inventory(case, style)}
                got = sorted((e.callname, e.num) for e in exs)
                if got != sorted(exp):
                    # collection itself is C07's business; without the inventory nothing can be said here
                    raise Violation('collection_differs', 'style {}: collected {} expected {}\n{}'.format(
                        style, got, sorted(exp), c07._numbered(lines)))
                for e in exs:
                    x = exp[(e.callname, e.num)]
                    _check_example(e, x, lines, style, ctx, DoctestPart)
        finally:
            sandbox.purge_modules([name])


def _check_example(e, x, lines, style, ctx, DoctestPart):
    ident = '{}:{} ({})'.format(e.callname, e.num, style)
    numbered = c07._numbered(lines)
    kind_of_doc = 'google' if (style == 'google' or (style == 'auto' and e.block_type is not None)) else 'freeform'
    # 1. start line
    if e.lineno != x['first']:
        key = 'start_line:{}{}'.format(kind_of_doc, ':leading_nonprompt' if x['lead'] else '')
        msg = 'doctest {} reports start line {} but its first prompt is on file line {}\n{}'.format(
            ident, e.lineno, x['first'], numbered)
        if ctx is not None and ctx.is_suppressed(key):
            ctx.suppressed_hits[key] += 1
        else:
            raise Violation(key, msg)
    # 2. part offsets
    with sandbox.quiet():
        e._parse()
    for part in e._parts:
        if not isinstance(part, DoctestPart):
            continue
        fl = e.lineno + part.line_offset
        src0 = part.orig_lines[0].strip() if part.orig_lines else None
        at = lines[fl - 1].strip() if 1 <= fl <= len(lines) else '<beyond the file>'
        if src0 is None or at != src0:
            raise Violation('part_offset:' + kind_of_doc,
                            'doctest {}: part starting with {!r} is located at file line {} which holds {!r}\n{}'.format(
                                ident, src0, fl, at, numbered))
    # 3. failing line
    with sandbox.quiet():
        summary = e.run(on_error='return', verbose=0)
    exp_fail = x['fail_line']
    if ctx is not None:
        ctx.count()
        ctx.tag('outcome:' + (x['exc'] or 'pass'))
    if exp_fail is None:
        if not summary['passed']:
            raise Violation('unexpected_failure', 'doctest {} should pass but: {}\n{}'.format(
                ident, e.exc_info and e.exc_info[1], numbered))
        if e.failed_lineno() is not None:
            raise Violation('failed_lineno_on_pass', 'doctest {} passed but failed_lineno() = {}'.format(ident, e.failed_lineno()))
        return
    if x['exc'] not in ('GotWantException', 'Exception'):     # ('Exception': a directive that cannot be applied; no business of CPython)
        ref_line, ref_exc = ref_fail_line(lines, x)
        if ref_line != exp_fail or ref_exc != x['exc']:
            raise HarnessError('generator bookkeeping disagrees with CPython: {} vs {} ({} vs {})\n{}'.format(
                exp_fail, ref_line, x['exc'], ref_exc, numbered))
    if not summary['failed'] or e.exc_info is None:
        raise Violation('should_fail', 'doctest {} should fail at file line {} ({}) but summary is {}\n{}'.format(
            ident, exp_fail, x['exc'], {k: summary[k] for k in ('passed', 'failed', 'skipped')}, numbered))
    got_exc = e.exc_info[0].__name__
    if got_exc != x['exc']:
        raise Violation('wrong_exception', 'doctest {} failed with {} expected {}\n{}'.format(ident, got_exc, x['exc'], numbered))
    got_line = e.failed_lineno()
    kind = _fail_kind(lines, x)
    if got_line != exp_fail:
        raise Violation('failed_lineno:{}:{}'.format(kind, kind_of_doc),
                        'doctest {} fails with {} on file line {} ({!r}) but failed_lineno() = {} ({!r})\n{}'.format(
                            ident, x['exc'], exp_fail, lines[exp_fail - 1].strip(), got_line,
                            lines[got_line - 1].strip() if got_line and 1 <= got_line <= len(lines) else None, numbered))
    with sandbox.quiet():
        rep = e.repr_failure()
    text = '\n'.join(rep)
    m = re.search(r'File "[^"]*", line (\d+),', text)
    if not m or int(m.group(1)) != exp_fail:
        raise Violation('repr_failure_line:' + kind,
                        'doctest {}: repr_failure() names line {} expected {}\n{}'.format(
                            ident, m and m.group(1), exp_fail, text[:1500]))
    m2 = re.search(r'XDoc "[^"]*", line (\d+)', text)
    if not m2 or int(m2.group(1)) != exp_fail - x['first'] + 1:
        key = 'repr_failure_relline:' + kind
        if not (x['lead'] and ctx is not None and ctx.is_suppressed('start_line:google:leading_nonprompt')):
            raise Violation(key, 'doctest {}: repr_failure() names doctest-relative line {} expected {}\n{}'.format(
                ident, m2 and m2.group(1), exp_fail - x['first'] + 1, text[:1500]))
    if ctx is not None:
        feats = 0
        seg = lines[x['first'] - 1:exp_fail]
        feats += any(s.strip().endswith('2]') for s in seg)                 # multi-line statement before
        feats += any(s.strip() == 'l2' for s in seg)                        # multi-line want before
        feats += kind in ('exc_multi', 'exc_multi_new', 'helper', 'want_after_multi')
        feats += bool(x['lead']) or x['num'] > 0
        if exp_fail > x['first'] and feats >= 2:
            ctx.nontriv(('\n'.join(lines), style, e.callname, e.num),
                        {'doctest': ident, 'fails_at_file_line': exp_fail, 'kind': kind, 'first_prompt_line': x['first'],
                         'module': '\n'.join(lines[max(0, x['first'] - 8):exp_fail + 2])})


def _fail_kind(lines, x):
    s = lines[x['fail_line'] - 1].strip()
    if x['exc'] == 'GotWantException':
        prev = lines[x['fail_line'] - 2].strip()
        return 'want_after_multi' if prev.startswith('...') else 'want'
    if 'nosuchkind' in s:
        return 'bad_directive'
    if 'vp_module_boom' in s:
        return 'modfunc'
    if 'other_file.py' in s:
        return 'rt_syntax'
    if re.match(r'>>> h\d+\(1\)', s):
        return 'helper'
    if s.startswith('...'):
        return 'exc_multi'
    if '{}[' in s:
        return 'exc_multi_new'
    return 'exc'


@composite
def module_strategy(D, max_items):
    m = modules.build_module(D, importable=True, fail_kinds=FAIL_KINDS, max_items=max_items, disabled_blocks=True)
    case = modules.case_of(m)
    case['rewritten'] = D.chance(1, 4)
    if case['rewritten']:
        case['features'] = sorted(set(case['features']) | {'path_rewritten_after_collection'})
    return case


def _check(case, ctx):
    for f in case['features']:
        ctx.tag(f)
    check_case(case, ctx)


def hyp_modules(ctx, n_examples, max_items):
    engine.hyp_run(ctx, module_strategy(max_items), _check, n_examples)


def health(tot, tier):
    c = tot['classes']
    n = max(1, sum(v for k, v in c.items() if k.startswith('outcome:')))
    for need in ('outcome:KeyError', 'outcome:ZeroDivisionError', 'outcome:GotWantException', 'outcome:ValueError',
                 'outcome:IndexError', 'outcome:SyntaxError', 'outcome:pass'):
        if c.get(need, 0) < 0.01 * n:
            return 'class {} is below 1% of the doctests run'.format(need)
    return None


def selftest():
    c07.selftest()
    # the reference must report inner lines of multi-line statements and the calling line for helpers
    lines = ['>>> x = 1', '>>> z = (1 +', '...      1 / 0 +', '...      3)']
    ln, exc = ref_fail_line(lines, {'spans': [[1, 4]]})
    assert (ln, exc) == (3, 'ZeroDivisionError'), (ln, exc)
    lines = ['>>> def h(v):', '...     raise IndexError(v)', '>>> print(1)', '1', '>>> h(1)']
    ln, exc = ref_fail_line(lines, {'spans': [[1, 5]]})
    assert (ln, exc) == (5, 'IndexError'), (ln, exc)
    lines = ['>>> vp_module_boom(3)']
    assert ref_fail_line(lines, {'spans': [[1, 1]]}) == (1, 'ValueError')


def jobs(tier):
    per = 150 if tier == 'quick' else 3000
    return [('hyp_modules#%d' % s, 'hyp_modules', dict(n_examples=per, max_items=6)) for s in range(16)]
