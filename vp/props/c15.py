"""
C15 — pytest plugin and native runner give the same verdict for every doctest.

The same generated package (G6 modules with by-construction outcomes, some
built so that a default option flips their verdict) is run through
``python -m pytest --xdoctest`` and through ``python -m xdoctest <pkg> all`` in
subprocesses started in an empty directory; identifiers, per-doctest outcomes
and exit status are compared with each other and with the inventory.
"""
import os
import re
import subprocess
import xml.etree.ElementTree as ET

from vp import engine, sandbox
from vp.engine import HarnessError, Violation
from vp.gen import outcomes
from vp.gen.draw import composite

ID = 'C15'
DESIGN_REF = '6.15'
TECHNIQUE = ('Hypothesis-generated packages of modules with by-construction outcomes x style x default options; '
             'differential between two subprocess front ends (pytest --xdoctest, junit report  vs  python -m xdoctest, '
             'result lines), with the generator inventory as tie-breaker; exit status and executed-statement trace compared')
LEVEL_TEXT = ("Generated packages of 1-12 modules, each with 1-8 documented functions and methods whose doctests have "
              "by-construction outcomes (pass, wrong output, exception, failure in the last statement, all skipped, unmet "
              "REQUIRES, every statement skipped after a harmless block directive, partly skipped, expected exception, comment only, force-disabled by each of the five patterns, plus "
              "doctests whose verdict depends on ELLIPSIS, NORMALIZE_WHITESPACE or IGNORE_WHITESPACE) are run by both front "
              "ends in subprocesses with the same style (auto, google, freeform) and the same default options (none, +SKIP, "
              "-ELLIPSIS, +IGNORE_WHITESPACE, -NORMALIZE_WHITESPACE, and pairs): the identifier sets must be equal once the "
              "force-disabled doctests (skipped under pytest, absent natively) are set aside, every identifier must have the "
              "same outcome class on both sides and in the inventory, both must have executed the same doctests exactly once, "
              "and each must exit non-zero exactly when some doctest failed. Single-module runs give the exit-status "
              "comparison per module. Differential exploration; volume bounded by process start-up (about 1 s per pair).")
LEVEL_ADDED = ('Two further jobs: text files (.txt / .rst of 2-7 google blocks that bind a name, read a name only other blocks bind, pass, fail or are skipped) through the pytest plugin - outcome per block, blocks that ran and exit status by construction; and nine docstrings of doubtful syntax (blocks without any prompt, statements that are not Python) x three styles between a passing and a failing neighbour through both front ends: neither may break down, both must still run the neighbours.')
LEVEL_NOTE = ("Trusted: pytest 9 as the host of the plugin and its junit report; the generator inventory as tie-breaker. "
              "Modules without any collected doctest are excluded (pytest exits 5 for 'no tests collected', which is not "
              "xdoctest's decision); the '# pytest.skip' pattern is not generated.")
RULE = ("packages of 1-12 modules. Non-trivial package: holds >= 1 failing, >= 1 skipped and >= 1 force-disabled doctest, or the "
        "options flip >= 1 verdict. Distinct = (package source, style, options).")
ASSUMPTIONS = [
    "pytest exit status 1 = tests failed, 0 = all passed; 5 (nothing collected) is excluded by construction",
    "native per-doctest outcomes are read from the '* SUCCESS/FAILURE/SKIPPED: <node>' lines printed at --verbose=1",
]
STYLES = ['auto', 'google', 'freeform']
OPTIONS = [(), (), ('+SKIP',), ('-ELLIPSIS',), ('+IGNORE_WHITESPACE',), ('-NORMALIZE_WHITESPACE',),
           ('-ELLIPSIS', '+IGNORE_WHITESPACE'), ('-NORMALIZE_WHITESPACE', '-ELLIPSIS')]
RESULT_RE = re.compile(r'^\* (SUCCESS|FAILURE|SKIPPED): (.*)::([^:\s]+:\d+)\s*$', re.M)
_PLUGIN_ARGS = None


def plugin_args():
    """-p xdoctest.plugin is only needed when the pytest11 entry point is not installed"""
    global _PLUGIN_ARGS
    if _PLUGIN_ARGS is None:
        with sandbox.scratch('c15p') as d:
            p = subprocess.run(['/venv/bin/python', '-m', 'pytest', '--help'], cwd=d, env=sandbox.clean_env(),
                               stdout=subprocess.PIPE, stderr=subprocess.STDOUT, text=True, timeout=300)
        _PLUGIN_ARGS = [] if '--xdoctest-style' in p.stdout else ['-p', 'xdoctest.plugin']
    return _PLUGIN_ARGS


def _read_trace(path):
    if not os.path.exists(path):
        return []
    with open(path) as f:
        out = sorted(ln.strip() for ln in f if ln.strip())
    os.remove(path)
    return out


def run_pytest(target, cwd, style, options, trace, junit, ordered=False):
    env = sandbox.clean_env()
    env['VP_TRACE'] = trace
    env.pop('VP_NEVER_SET_VARIABLE', None)
    args = ['/venv/bin/python', '-m', 'pytest'] + plugin_args() + [
        '--xdoctest', '--xdoctest-style=' + style, '-p', 'no:cacheprovider', '-q', '--junitxml=' + junit,
        '-o', 'junit_family=xunit1', '--rootdir=' + cwd]
    if options:
        args.append('--xdoctest-options=' + ','.join(options))
    args.append(target)
    p = subprocess.run(args, cwd=cwd, env=env, stdout=subprocess.PIPE, stderr=subprocess.STDOUT, text=True, timeout=600)
    res = {}
    seq = []
    if os.path.exists(junit):
        root = ET.parse(junit).getroot()
        for tc in root.iter('testcase'):
            ident = (os.path.basename(tc.get('file') or (tc.get('classname', '').replace('.', '/') + '.py')), tc.get('name'))
            kinds = {ch.tag for ch in tc}
            if 'failure' in kinds or 'error' in kinds:
                oc = 'failed' if 'failure' in kinds else 'error'
            elif 'skipped' in kinds:
                oc = 'skipped'
            else:
                oc = 'passed'
            res[ident] = oc
            seq.append(oc)
        os.remove(junit)
    if ordered:
        return p.returncode, seq, p.stdout
    return p.returncode, res, p.stdout


def run_native(target, cwd, style, options, trace):
    env = sandbox.clean_env()
    env['VP_TRACE'] = trace
    env.pop('VP_NEVER_SET_VARIABLE', None)
    args = ['/venv/bin/python', '-m', 'xdoctest', target, 'all', '--style=' + style, '--verbose=1']
    if options:
        args.append('--options=' + ','.join(options))
    p = subprocess.run(args, cwd=cwd, env=env, stdout=subprocess.PIPE, stderr=subprocess.STDOUT, text=True, timeout=600)
    res = {}
    dup = []
    for m in RESULT_RE.finditer(p.stdout):
        ident = (os.path.basename(m.group(2)), m.group(3))
        if ident in res:
            dup.append(ident)
        res[ident] = {'SUCCESS': 'passed', 'FAILURE': 'failed', 'SKIPPED': 'skipped'}[m.group(1)]
    return p.returncode, res, p.stdout, dup


def check_case(case, ctx):
    if 'kinds' in case and 'modules' not in case:
        return check_text_case(case, ctx)
    if 'doubtful' in case:
        return check_doubtful_case(case, ctx)
    style = case['style']
    options = tuple(case.get('options', ()))
    mods = case['modules']
    with sandbox.scratch('c15') as d:
        cwd = os.path.join(d, 'cwd')
        os.makedirs(cwd)
        pkgname = sandbox.unique_name('vpc15pkg')
        pkg = os.path.join(d, pkgname)
        os.makedirs(pkg)
        with open(os.path.join(pkg, '__init__.py'), 'w') as f:
            f.write('')
        inv = {}
        srcs = []
        for i, mc in enumerate(mods):
            fn = 'm{}_{}.py'.format(i, pkgname[-6:].replace('_', 'x'))
            lines = outcomes.module_lines(mc)
            with open(os.path.join(pkg, fn), 'w') as f:
                f.write('\n'.join(lines) + '\n')
            srcs.append('# ---- {}\n{}'.format(fn, '\n'.join(lines)))
            for x in outcomes.inventory(mc, style, options):
                inv[(fn, x['id'])] = x
        if not inv:
            if ctx is not None:
                ctx.notes['excluded_no_doctests'] += 1
            return
        single = len(mods) == 1
        target = os.path.join(pkg, 'm0_{}.py'.format(pkgname[-6:].replace('_', 'x'))) if single else pkg
        trace = os.path.join(d, 'trace.txt')
        rc_p, res_p, out_p = run_pytest(target, cwd, style, options, trace, os.path.join(d, 'junit.xml'))
        tr_p = _read_trace(trace)
        rc_n, res_n, out_n, dup_n = run_native(target, cwd, style, options, trace)
        tr_n = _read_trace(trace)
        where = 'style={} options={}\n--- pytest (exit {})\n{}\n--- native (exit {})\n{}\n--- modules\n{}'.format(
            style, list(options), rc_p, out_p[-1500:], rc_n, out_n[-1500:], '\n'.join(srcs)[:6000])
        if rc_p not in (0, 1) or 'INTERNALERROR' in out_p:
            raise Violation('pytest_abnormal_exit', 'pytest exit status {}\n{}'.format(rc_p, where))
        if rc_n not in (0, 1):
            raise Violation('native_abnormal_exit', 'native exit status {}\n{}'.format(rc_n, where))
        # a disable marker in lower / mixed case: the property does not say whether it force-disables, only that the two
        # front ends treat it alike - it counts as disabled when pytest skips it *and* the native runner omits it
        for k, x in inv.items():
            if x.get('maybe_disabled'):
                if res_p.get(k) == 'skipped' and k not in res_n:
                    x['disabled'] = True
                elif ctx is not None:
                    ctx.notes['lower_case_marker_not_disabling'] += 1
        enabled = {k: x for k, x in inv.items() if not x['disabled']}
        disabled = {k for k, x in inv.items() if x['disabled']}
        flips = [k for k, x in enabled.items() if x['kind'].split('+')[0] in outcomes.OPTION_KINDS or
                 (options and '+SKIP' in options)]
        if ctx is not None:
            ctx.count(2)
            ctx.tag('single_module' if single else 'package')
            ctx.tag('options:' + (','.join(options) or 'none'))
            ctx.tag('style:' + style)
            ocs = {x['outcome'] for x in enabled.values()}
            if ({'failed', 'skipped'} <= ocs and disabled) or (options and flips):
                ctx.nontriv((srcs, style, options), {'style': style, 'options': list(options), 'n_doctests': len(inv),
                                                     'expected': {'{}::{}'.format(*k): ('disabled' if x['disabled'] else x['outcome'])
                                                                  for k, x in list(inv.items())[:12]},
                                                     'first_module': srcs[0][:1500]})
        # identifiers
        ids_p = set(res_p)
        ids_n = set(res_n)
        if dup_n:
            raise Violation('native_runs_twice', 'native runner reports {} more than once\n{}'.format(dup_n, where))
        if ids_p - disabled != ids_n:
            only_p = sorted(ids_p - disabled - ids_n)
            only_n = sorted(ids_n - (ids_p - disabled))
            side = 'pytest' if (ids_n == set(enabled) and ids_p - disabled != set(enabled)) else \
                ('native' if (ids_p - disabled == set(enabled)) else 'both')
            raise Violation('identifiers_differ:' + side, 'only pytest {} only native {} (inventory: {} enabled, {} disabled)\n{}'.format(
                only_p, only_n, len(enabled), len(disabled), where))
        if ids_n != set(enabled):
            raise Violation('identifiers_vs_inventory', 'both front ends report {} but the module holds {}\n{}'.format(
                sorted(ids_n), sorted(enabled), where))
        miss_dis = sorted(disabled - ids_p)
        if miss_dis:
            raise Violation('pytest_omits_disabled', 'force-disabled doctests {} do not appear under pytest\n{}'.format(miss_dis, where))
        for k in sorted(disabled):
            if res_p[k] != 'skipped':
                raise Violation('pytest_disabled_not_skipped', 'force-disabled doctest {} is {} under pytest\n{}'.format(k, res_p[k], where))
        # outcomes
        for k in sorted(enabled):
            a, b, c = res_p[k], res_n[k], enabled[k]['outcome']
            if a != b:
                side = 'pytest' if b == c else ('native' if a == c else 'both')
                raise Violation('outcome_differs:{}:{}'.format(side, enabled[k]['kind'].split('+')[0]),
                                'doctest {} ({}) is {} under pytest and {} natively (by construction: {})\n{}'.format(
                                    k, enabled[k]['kind'], a, b, c, where))
            if a != c:
                raise Violation('outcome_vs_inventory:' + enabled[k]['kind'].split('+')[0],
                                'doctest {} ({}) is {} under both front ends, by construction {}\n{}'.format(
                                    k, enabled[k]['kind'], a, c, where))
        # executed statements
        exp_trace = sorted(t for x in enabled.values() for t in x['traces'])
        if tr_p != tr_n:
            side = 'pytest' if tr_n == exp_trace else ('native' if tr_p == exp_trace else 'both')
            raise Violation('executed_differs:' + side, 'pytest executed {} native executed {} expected {}\n{}'.format(
                tr_p, tr_n, exp_trace, where))
        if tr_n != exp_trace:
            raise Violation('executed_vs_inventory', 'both executed {} expected {}\n{}'.format(tr_n, exp_trace, where))
        # exit status
        any_failed = any(x['outcome'] == 'failed' for x in enabled.values())
        if (rc_p != 0) != any_failed:
            raise Violation('exit_status:pytest', 'pytest exits {} but failing doctests: {}\n{}'.format(rc_p, any_failed, where))
        if (rc_n != 0) != any_failed:
            raise Violation('exit_status:native', 'native exits {} but failing doctests: {}\n{}'.format(rc_n, any_failed, where))


@composite
def case_strategy(D, max_modules):
    n = D.int(1, max_modules)
    mods = [outcomes.gen_module(D, max_funcs=6, option_kinds=True, min_funcs=1, lc_disable=True) for _ in range(n)]
    return {'modules': mods, 'style': D.choice(STYLES), 'options': list(D.choice(OPTIONS))}


def _checked(case, ctx):
    """every execution costs two process start-ups, so a failing package is reduced by hand (one module, then as few
    callables as possible) instead of by the Hypothesis shrinker, and the search stops there"""
    try:
        check_case(case, ctx)
    except Violation as v:
        if ctx.is_suppressed(v.key):
            raise
        best = case
        if len(case['modules']) > 1:
            for m in case['modules']:
                c2 = dict(case, modules=[m])
                try:
                    check_case(c2, None)
                except Violation as v2:
                    if v2.key == v.key:
                        best, v = c2, v2
                        break
        if len(best['modules']) == 1:
            funcs = list(best['modules'][0]['funcs'])
            for fn in list(funcs):
                trial = [g for g in funcs if g is not fn]
                if not trial:
                    continue
                c3 = dict(best, modules=[{'funcs': trial}])
                try:
                    check_case(c3, None)
                except Violation as v3:
                    if v3.key == v.key:
                        funcs, best, v = trial, c3, v3
        raise engine.Abort(v, best)


# ---------------------------------------------------------------------------
# text files: the plugin collects .txt / .rst files as well; in google style every tagged block is a doctest of its own

TEXT_KINDS = ['pass', 'fail_out', 'fail_exc', 'bind_pass', 'bind_fail', 'read_x', 'skip_all']


def text_block(kind, k):
    tr = ['>>> import os', ">>> with open(os.environ['VP_TRACE'], 'a') as fh:", "...     _ = fh.write('t{}\\n')".format(k)]
    if kind == 'pass':
        return tr + [">>> print('out {}')".format(k), 'out {}'.format(k)], 'passed', True
    if kind == 'fail_out':
        return tr + [">>> print('out {}')".format(k), 'something else'], 'failed', True
    if kind == 'fail_exc':
        return tr + [">>> raise KeyError('{}')".format(k)], 'failed', True
    if kind == 'bind_pass':
        return tr + ['>>> X = {}'.format(k), '>>> print(X)', str(k)], 'passed', True
    if kind == 'bind_fail':
        return tr + ['>>> X = {}'.format(k), ">>> raise ValueError('after binding X')"], 'failed', True
    if kind == 'read_x':
        # X is only ever bound by *other* blocks: whatever ran before and however it ended, this is a NameError
        return tr + ['>>> print(X)'], 'failed', True
    if kind == 'skip_all':
        return ['>>> # xdoctest: +SKIP', ">>> print('never')", 'wrong'], 'skipped', False
    raise KeyError(kind)


def check_text_case(case, ctx):
    kinds = case['kinds']
    lines = ['A text file with examples.', '']
    exp, exp_trace = [], []
    for k, kind in enumerate(kinds):
        body, oc, traced = text_block(kind, k)
        lines += ['Some prose about block {}.'.format(k), '', 'Example:'] + ['    ' + b for b in body] + ['']
        exp.append(oc)
        if traced:
            exp_trace.append('t{}'.format(k))
    name = 'notes_{}{}'.format(sandbox.unique_name('t'), case.get('ext', '.txt'))
    with sandbox.scratch('c15t') as d:
        path = os.path.join(d, name)
        with open(path, 'w') as f:
            f.write('\n'.join(lines) + '\n')
        trace = os.path.join(d, 'trace.txt')
        rc, got, out = run_pytest(name, d, 'google', (), trace, os.path.join(d, 'junit.xml'), ordered=True)
        got_trace = _read_trace(trace)
    if ctx is not None:
        ctx.count()
        ctx.tag('textfile')
        for kind in set(kinds):
            ctx.tag('text_kind:' + kind)
        if 'read_x' in kinds and any(k_.startswith('bind') for k_ in kinds[:max(i for i, k_ in enumerate(kinds) if k_ == 'read_x')]):
            ctx.nontriv(('text', tuple(kinds)), {'text_file_blocks': kinds})
    where = 'blocks={}\n{}\n--- pytest\n{}'.format(kinds, '\n'.join(lines), out[-1500:])
    if len(got) != len(exp):
        raise Violation('textfile:item_count', 'pytest reports {} items for {} example blocks\n{}'.format(len(got), len(exp), where))
    if got != exp:
        i = [a != b for a, b in zip(got, exp)].index(True)
        raise Violation('textfile:outcome:{}'.format(kinds[i]), 'block {} ({}) is {} expected {}; all: {} expected {}\n{}'.format(
            i, kinds[i], got[i], exp[i], got, exp, where))
    if got_trace != exp_trace:
        raise Violation('textfile:trace', 'blocks that ran: {} expected {}\n{}'.format(got_trace, exp_trace, where))
    if (rc != 0) != ('failed' in exp):
        raise Violation('textfile:exit_status', 'pytest exit status {} with outcomes {}\n{}'.format(rc, exp, where))


def hyp_textfiles(ctx, n_examples):
    from hypothesis import strategies as st
    strat = st.fixed_dictionaries({'kinds': st.lists(st.sampled_from(TEXT_KINDS), min_size=2, max_size=7),
                                   'ext': st.sampled_from(['.txt', '.rst'])})
    engine.hyp_run(ctx, strat, lambda case, c: check_text_case(case, c), n_examples, shrink=False)
    ctx.guard(check_text_case, {'kinds': ['bind_fail', 'read_x', 'bind_pass', 'read_x', 'skip_all', 'pass', 'fail_out'], 'ext': '.txt'})


# ---------------------------------------------------------------------------
# a docstring of doubtful syntax between sound ones: both front ends must still run the neighbours (and never break down)

DOUBTFUL = [
    # google blocks in which nothing is a prompt (typos of it, prose)
    ['Example:', '    >> x = 1', '    >>>x = 2', '    > > > y = 3'],
    ['Example:', '    just prose where examples should be'],
    ['Examples:', '    >>>print(1)', '    1'],
    ['Doctest:', '    >>', '    ...'],
    # statements that are not Python
    ['Example:', '    >>> for i in range(3)', '    ...     print(i)'],
    ['Example:', '    >>> x = = 2', '    >>> print(x)'],
    ['>>> def f(x)', '...     return x'],
    ['Some prose.', '', '>>> x = (1,', '>>> print(x)', '1'],
    ['Example:', "    >>> s = '''", '    >>> print(s)'],
]


def check_doubtful_case(case, ctx):
    style = case['style']
    body = DOUBTFUL[case['doubtful'] % len(DOUBTFUL)]
    lines = ['import os', '', '', 'def _vp_trace(ident):', "    with open(os.environ['VP_TRACE'], 'a') as fh:", "        fh.write(ident + '\\n')", '', '']
    lines += ['def good_a():', '    \"\"\"', '    Summary.', '', '    Example:', "        >>> _vp_trace('a')", "        >>> print('a1')", '        a1', '    \"\"\"', '', '']
    lines += ['def doubtful():', '    \"\"\"', '    Summary of the doubtful one.', ''] + ['    ' + b for b in body] + ['    \"\"\"', '', '']
    lines += ['def failing_c():', '    \"\"\"', '    Summary.', '', '    Example:', "        >>> _vp_trace('c')", "        >>> print('c')", '        not c', '    \"\"\"', '', '']
    name = sandbox.unique_name('vpc15d')
    with sandbox.scratch('c15d') as d:
        with open(os.path.join(d, name + '.py'), 'w') as f:
            f.write('\n'.join(lines) + '\n')
        tp, tn = os.path.join(d, 'tp.txt'), os.path.join(d, 'tn.txt')
        rc_p, res_p, out_p = run_pytest(name + '.py', d, style, (), tp, os.path.join(d, 'junit.xml'))
        rc_n, res_n, out_n, _dup = run_native(name + '.py', d, style, (), tn)
        trace_p, trace_n = _read_trace(tp), _read_trace(tn)
    if ctx is not None:
        ctx.count(2)
        ctx.tag('doubtful_neighbour', 'doubtful:{}'.format(case['doubtful'] % len(DOUBTFUL)), 'style:' + style)
        ctx.nontriv(('doubtful', case['doubtful'] % len(DOUBTFUL), style), {'doubtful_docstring': body, 'style': style})
    where = 'style={}\n{}\n--- pytest (exit {})\n{}\n--- native (exit {})\n{}'.format(style, '\n'.join(lines), rc_p, out_p[-1500:], rc_n, out_n[-1500:])
    if 'INTERNALERROR' in out_p or rc_p not in (0, 1):
        raise Violation('doubtful:pytest_breaks_down', 'the pytest session does not end normally\n' + where)
    pn = {k[1]: v for k, v in res_p.items()}
    nn = {k[1]: v for k, v in res_n.items()}
    for front, got, trace in (('pytest', pn, trace_p), ('native', nn, trace_n)):
        if got.get('good_a:0') != 'passed' or got.get('failing_c:0') != 'failed':
            raise Violation('doubtful:neighbour_lost:' + front, '{}: good_a is {} (expected passed), failing_c is {} (expected failed)\n{}'.format(
                front, got.get('good_a:0'), got.get('failing_c:0'), where))
        if sorted(trace) != ['a', 'c']:
            raise Violation('doubtful:neighbour_trace:' + front, '{}: the neighbours that ran: {}\n{}'.format(front, trace, where))
    a, b = pn.get('doubtful:0'), nn.get('doubtful:0')
    if {a, b} & {'failed'} and a != b and not ({a, b} <= {'failed', 'error'}):
        raise Violation('doubtful:front_ends_differ', 'the doubtful docstring is {} under pytest and {} natively\n{}'.format(a, b, where))
    if rc_p != 1 or rc_n == 0:
        raise Violation('doubtful:exit_status', 'failing_c fails: pytest exit {} native exit {}\n{}'.format(rc_p, rc_n, where))


def doubtful(ctx, shard, nshards):
    n = 0
    for i in range(len(DOUBTFUL)):
        for style in STYLES:
            n += 1
            if n % nshards == shard:
                ctx.guard(check_doubtful_case, {'doubtful': i, 'style': style})
    if shard == 0:
        ctx.exhaustive.append('doubtful docstring ({}) x style (3) between a passing and a failing neighbour, pytest and native'.format(len(DOUBTFUL)))


def hyp_packages(ctx, n_examples, max_modules):
    engine.hyp_run(ctx, case_strategy(max_modules), _checked, n_examples, shrink=False)


def fixed(ctx):
    """every style x option set on one module that holds every kind (the option-flipping ones included)"""
    kinds = ['pass', 'fail_out', 'fail_exc', 'fail_last', 'all_skipped', 'req_unmet', 'inline_skipped_after_directive',
             'req_after_directive', 'partly', 'expected_exc', 'comment_only', 'fail_warn', 'pass_warn', 'fail_directive_first',
             'disabled_lc', 'disabled_lc', 'disabled', 'disabled', 'disabled', 'disabled', 'disabled', 'needs_ellipsis', 'needs_nw', 'needs_iw']
    kinds += [k for k in outcomes.BASE_KINDS if k not in kinds]
    funcs = []
    for i, k in enumerate(kinds):
        funcs.append({'name': 'f{}'.format(i), 'layout': 'google' if i % 3 else 'bare', 'in_class': i % 4 == 3,
                      'blocks': [{'kind': k, 'pattern': outcomes.DISABLE_PATTERNS[i % 5] if k == 'disabled' else (
                          outcomes.DISABLE_PATTERNS_LC[i % 4] if k == 'disabled_lc' else None)}]})
    for style in STYLES:
        for options in sorted(set(OPTIONS)):
            ctx.guard(check_case, {'modules': [{'funcs': funcs}], 'style': style, 'options': list(options)})


def health(tot, tier):
    c = tot['classes']
    for need in ('single_module', 'package', 'options:+SKIP', 'options:-ELLIPSIS', 'style:google', 'style:freeform', 'style:auto'):
        if c.get(need, 0) < 1:
            return 'class {} was never generated'.format(need)
    return None


def selftest():
    from vp.props import c10
    c10.selftest()
    assert outcomes.outcome_of('needs_ellipsis', ('-ELLIPSIS',)) == ('failed', True)
    assert outcomes.outcome_of('needs_iw', ('+IGNORE_WHITESPACE',)) == ('passed', True)
    assert outcomes.outcome_of('pass', ('+SKIP',)) == ('skipped', False)
    m = RESULT_RE.search('* SUCCESS: /a/b/m1.py::K.f3:0\n')
    assert m and m.group(3) == 'K.f3:0'
    if plugin_args() not in ([], ['-p', 'xdoctest.plugin']):
        raise HarnessError('cannot locate the pytest plugin')


def jobs(tier):
    quick = tier == 'quick'
    out = [('fixed', 'fixed', {})]
    out += [('hyp_packages#%d' % s, 'hyp_packages', dict(n_examples=5 if quick else 60, max_modules=10)) for s in range(10)]
    out += [('hyp_single#%d' % s, 'hyp_packages', dict(n_examples=8 if quick else 90, max_modules=1)) for s in range(5)]
    out += [('hyp_textfiles#%d' % s, 'hyp_textfiles', dict(n_examples=6 if quick else 80)) for s in range(2)]
    out += [('doubtful#%d' % s, 'doubtful', dict(shard=s, nshards=3)) for s in range(3)]
    return out
