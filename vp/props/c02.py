"""
C02 — Got/want verdicts are exact: no false pass, no false fail.

Programs with deterministic, statement-unique outputs (known from a reference
execution) get correct wants in every placement the statement allows (must
pass) and exactly one corrupted want (must fail at that want, everything before
it has run, nothing after it).  Also: want-less code never fails because of what
it prints or returns; a doctest in which nothing ran is reported skipped.
"""
import contextlib
import io
import itertools
import warnings

from vp import engine
from vp.engine import HarnessError, Violation
from vp.gen.draw import composite
from vp.ref import pyexec

ID = 'C02'
TECHNIQUE = ('Hypothesis-generated programs with reference-execution outputs: must-pass want placements and '
             'single-want corruptions (must fail at that want); bounded exhaustive enumeration of want placements')
RULE = ("programs of 1-8 statements (13 kinds: printing, value-bearing, None, assignments, loops, semicolon lines, "
        "printing+value, multi-line; new-style and classic prompt layouts) x placements of correct wants "
        "(all / own / val / repl) x one corruption (replace, append, prepend, drop last line, stale prefix, '...' want demanding the tail twice, repr of an earlier statement's value, a lone quote character under a silent statement). "
        "Non-trivial: >= 2 wants, or a want matching output accumulated from >= 2 want-less statements, or a corruption "
        "at a want that is not the first. Distinct = distinct (docstring, corrupted docstring).")
DESIGN_REF = '6.2'
LEVEL_TEXT = ("Generated programs whose true per-statement stdout and value come from a reference execution get correct "
              "wants in every placement the statement allows (all output since the last want / own output / value / "
              "REPL concatenation) and must pass; one corrupted want must make the doctest fail with a got/want error "
              "at exactly that want with nothing executed afterwards. Exhaustive over all programs of <= 3 (quick) / 4 "
              "(thorough) statements x placements, randomised with shrinking beyond.")
LEVEL_ADDED = ('A further corruption: a lone quote character as the want of a statement that prints nothing and has no value.')
LEVEL_NOTE = ("Trusted: CPython as reference executor; the generator's knowledge of where 'single' mode echoes a value. "
              "Wants in the band the statement leaves open are not generated; expected-exception wants are C03's domain.")
ASSUMPTIONS = [
    "CPython execution of each statement gives its true stdout and value",
    "a want-bearing part compiled in 'single' mode (classic >>>/... layout, or ';' in the final statement) echoes a "
    "non-None expression value into stdout, REPL style; the generator knows where this applies",
    "wants between 'must pass' and 'must fail' (trailing portions at statement rather than part granularity) are not generated",
]

KINDS = ['print', 'value', 'none', 'assign', 'print2', 'printval', 'strvalue', 'printnone', 'for', 'semi_none',
         'semi_first', 'semi_value', 'mlvalue', 'mlprintval', 'escvalue']
ENUM_KINDS = ['print', 'escvalue', 'none', 'assign', 'printval', 'semi_first']


def make_stmt(k, kind, layout='new'):
    t = 'T.append({})'.format(k)
    if kind == 'print':
        L = ["print('o{}', {})".format(k, t)]
    elif kind == 'print2':
        L = ["print('o{0}a\\no{0}b', {1})".format(k, t)]
    elif kind == 'assign':
        L = ['v{0} = {1} or {0}'.format(k, t)]
    elif kind == 'value':
        L = ['({} or {}0) + 1'.format(t, k)]
    elif kind == 'strvalue':
        L = ["({} or 's{}') + 'x'".format(t, k)]
    elif kind == 'escvalue':
        # str() and repr() of this value differ by more than the quotes
        L = ["({} or 's{}') + '\\t.'".format(t, k)]
    elif kind == 'none':
        L = [t]
    elif kind == 'printnone':
        L = ["print('q{}') or {}".format(k, t)]
    elif kind == 'for':
        L = ['for i{} in range(2):'.format(k), "    print('f{0}', i{0}, {1})".format(k, t)]
    elif kind == 'semi_none':
        L = ['a{} = 1; {}'.format(k, t)]
    elif kind == 'semi_first':
        L = ['a{0} = {1}; b{0} = 2'.format(k, t)]
    elif kind == 'semi_value':
        L = ['a{0} = 1; ({1} or {0}0) + 1'.format(k, t)]
    elif kind == 'printval':
        L = ["(print('w{0}'), {1}, {0} * 2)[2]".format(k, t)]
    elif kind == 'mlvalue':
        L = ['({} or'.format(t), ' {}0) + 1'.format(k)]
    elif kind == 'mlprintval':
        L = ["(print('w{}'),".format(k), ' {}, {} * 2)[2]'.format(t, k)]
    else:
        raise KeyError(kind)
    if len(L) == 1:
        layout = 'new'
    return {'k': k, 'kind': kind, 'lines': L, 'layout': layout}


def doc_lines(stmt):
    L = stmt['lines']
    if stmt['layout'] == 'classic':
        return ['>>> ' + L[0]] + ['... ' + x for x in L[1:]]
    return ['>>> ' + x for x in L]


def analyse(stmts):
    """reference execution: per statement out/value/is_expr"""
    ns = {'T': []}
    info = []
    for s in stmts:
        out, value, is_expr, exc = pyexec.exec_unit('\n'.join(s['lines']), ns)
        if exc is not None:
            raise HarnessError('statement raised {!r}'.format(exc))
        valued = is_expr and value is not None
        info.append({'out': out, 'is_expr': is_expr, 'valued': valued,
                     'rep': repr(value) if valued else None, 'trace_len': len(ns['T'])})
    return info, list(ns['T'])


def echo_mode(stmt, info_i):
    """does a want-bearing part for this statement run in 'single' mode and echo its value?"""
    if not info_i['valued']:
        return False
    if stmt['layout'] == 'classic' and len(stmt['lines']) > 1:
        return True
    return any(';' in ln for ln in stmt['lines'])


def want_options(stmts, info, i, since):
    """correct wants that may follow statement i.  ``since`` = stdout of the want-less statements
    since the previous want (not including statement i).  Returns {name: text}."""
    s, inf = stmts[i], info[i]
    out = inf['out']
    opts = {}
    if inf['valued']:
        rep = inf['rep'] + '\n'
        if echo_mode(s, inf):
            opts['all'] = since + out + rep
            opts['own'] = out + rep
            if not out:
                opts['val'] = rep
        else:
            if since + out:
                opts['all'] = since + out
            if out:
                opts['own'] = out
            opts['val'] = rep
            opts['repl_all'] = since + out + rep
            opts['repl_own'] = out + rep
    else:
        if since + out:
            opts['all'] = since + out
        if inf['is_expr'] and out:
            opts['own'] = out
        if inf['is_expr'] and not (s['layout'] == 'classic' and len(s['lines']) > 1) and not any(';' in ln for ln in s['lines']):
            # "or the repr of that expression's value": a lone expression statement whose value is None may be followed
            # by the want None, whether or not it also printed something (parts compiled in 'single' mode have no value)
            opts['val_none'] = 'None\n'
    return opts


def build_doc(stmts, wants, indent=''):
    """wants: list (per statement) of text or None.  Returns (doc, line index (1-based) of the first line of each want)."""
    lines = []
    want_line = {}
    for i, s in enumerate(stmts):
        lines.extend(doc_lines(s))
        if wants[i] is not None:
            want_line[i] = len(lines) + 1
            lines.extend(wants[i].rstrip('\n').split('\n'))
    return '\n'.join(indent + ln for ln in lines) + '\n', want_line


def run(doc):
    from xdoctest import core
    trace = []
    with warnings.catch_warnings(record=True), contextlib.redirect_stdout(io.StringIO()):
        warnings.simplefilter('always')
        examples = list(core.parse_docstr_examples(doc, callname='c02', style='freeform'))
        if len(examples) != 1:
            raise Violation('not_collected:{}'.format(len(examples)), 'docstring yields {} doctests\n{}'.format(len(examples), doc))
        ex = examples[0]
        ex.mode = 'native'
        ex.global_namespace['T'] = trace
        summary = ex.run(verbose=0, on_error='return')
    return summary, trace, ex


def check_case(case, ctx):
    kind = case.get('mode', 'wants')
    if kind == 'nothing_ran':
        return _check_nothing_ran(case)
    stmts = case['stmts']
    info, full_trace = analyse(stmts)
    wants = case['wants']
    doc, want_line = build_doc(stmts, wants, case.get('indent', ''))
    # ---- must pass
    summary, trace, ex = run(doc)
    if not summary['passed']:
        ei = summary.get('exc_info')
        raise Violation('false_fail:' + _want_kinds(case),
                        'every want is correct but the doctest {} ({})\n{}'.format(
                            'was skipped' if summary['skipped'] else 'failed',
                            repr(ei[1])[:300] if ei else None, doc))
    if trace != full_trace:
        raise Violation('trace_on_pass', 'executed {} expected {}\n{}'.format(trace, full_trace, doc))
    # ---- must fail
    cor = case.get('corruption')
    if cor is None:
        return
    i = cor['at']
    bad = list(wants)
    bad[i] = cor['text']
    doc2, want_line2 = build_doc(stmts, bad, case.get('indent', ''))
    from xdoctest import checker
    summary, trace, ex = run(doc2)
    if summary['passed'] or not summary['failed']:
        raise Violation('false_pass:' + cor['kind'],
                        'the want after statement {} is wrong ({}) but the doctest {}\n{}'.format(
                            i + 1, cor['kind'], 'passed' if summary['passed'] else 'was skipped', doc2))
    exv = summary['exc_info'][1]
    if not isinstance(exv, checker.GotWantException):
        raise Violation('wrong_exception:' + type(exv).__name__,
                        'expected a got/want error, got {!r}\n{}'.format(exv, doc2))
    exp_trace = full_trace[:info[i]['trace_len']]
    if trace != exp_trace:
        raise Violation('trace_on_fail:' + ('ran_after_failure' if len(trace) > len(exp_trace) else 'missing'),
                        'after a failing want at statement {} the executed statements are {} expected {}\n{}'.format(
                            i + 1, trace, exp_trace, doc2))
    fp = ex.failed_part
    bad_lines = cor['text'].rstrip('\n').split('\n')
    if fp is None or list(fp.want_lines or []) != bad_lines:
        raise Violation('attribution:failed_part',
                        'failure attributed to a part with want {!r}, expected {!r}\n{}'.format(
                            getattr(fp, 'want_lines', None), bad_lines, doc2))
    ln = ex.failed_lineno()
    if ln != want_line2[i]:
        raise Violation('attribution:failed_lineno',
                        'failed_lineno() = {} but the offending want starts at docstring line {}\n{}'.format(
                            ln, want_line2[i], doc2))


def _want_kinds(case):
    return '+'.join(sorted({k for k in case.get('want_kinds', []) if k})) or 'none'


def _check_nothing_ran(case):
    doc = case['doc']
    summary, trace, ex = run(doc)
    if trace:
        raise Violation('nothing_ran_but_trace', 'statements {} ran although all are skipped\n{}'.format(trace, doc))
    if summary['passed'] or summary['failed'] or not summary['skipped']:
        raise Violation('nothing_ran_not_skipped',
                        'a doctest in which nothing ran is reported {} instead of skipped\n{}'.format(
                            'passed' if summary['passed'] else 'failed', doc))


# ---------------------------------------------------------------------------


def _ell_matches(got, want):
    """could ``want`` (with '...') legitimately match ``got`` under the default leniencies?  (whitespace collapsed)"""
    from vp.ref import ellipsis
    g = ' '.join(got.split())
    w = ' '.join(want.split())
    return True in ellipsis.verdicts(g, w)


def corrupt(D, wants, i, prev_idx, junk, allowed, earlier_reps=()):
    w = wants[i]
    wl = w.rstrip('\n').split('\n')
    kinds = ['replace', 'append', 'prepend']
    if len(wl) >= 2 and '\n'.join(wl[:-1]) + '\n' not in allowed:
        # (dropping the echoed value of a REPL-complete want leaves the plain stdout, which is correct)
        kinds.append('droplast')
    if prev_idx is not None:
        kinds.append('stale_prefix')
    # a want that abbreviates the middle with '...' but demands the tail twice: only overlapping pieces could match
    flat = w.rstrip('\n')
    dup = None
    # the want may legitimately match any trailing portion of the output accumulated since the previous want:
    # every line-level suffix of every allowed reading is tried (a superset of the statement-level portions)
    readings = set()
    for opt in allowed | {w}:
        ol = opt.rstrip('\n').split('\n')
        for j in range(len(ol)):
            readings.add('\n'.join(ol[j:]))
    if len(flat) >= 3 and not flat[0].isspace() and flat[0] != '.':
        tail = flat[-min(4, len(flat) - 1):]
        cand = flat[:1] + '...' + tail + '...' + tail + '\n'
        if '\n\n' not in cand and not any(_ell_matches(opt, cand) for opt in readings):
            dup = cand
            kinds.append('ellipsis_dup')
    # the repr of the value of an *earlier* expression statement (a value that went stale must not satisfy a later want)
    stale = [r + '\n' for r in earlier_reps if not any(_ell_matches(opt, r + '\n') for opt in readings)]
    if stale:
        kinds.append('earlier_value')
    kind = D.choice(kinds)
    if kind == 'earlier_value':
        text = D.choice(stale)
    elif kind == 'ellipsis_dup':
        text = dup
    elif kind == 'replace':
        text = junk + '\n'
    elif kind == 'append':
        text = '\n'.join(wl + [junk]) + '\n'
    elif kind == 'prepend':
        text = '\n'.join([junk] + wl) + '\n'
    elif kind == 'droplast':
        text = '\n'.join(wl[:-1]) + '\n'
    else:
        text = wants[prev_idx].rstrip('\n') + '\n' + w
    return {'at': i, 'kind': kind, 'text': text}


@composite
def case_strategy(D, max_stmts):
    n = D.int(1, max_stmts)
    stmts = [make_stmt(k, D.choice(KINDS), D.choice(['new', 'classic'])) for k in range(1, n + 1)]
    info, _ = analyse(stmts)
    wants = [None] * n
    want_kinds = [None] * n
    since = ''
    acc = 0
    nontriv_acc = False
    for i in range(n):
        opts = want_options(stmts, info, i, since)
        names = [None] + sorted(opts)
        name = D.choice(names)
        if name is None:
            since += info[i]['out']
            acc += 1
        else:
            wants[i] = opts[name]
            want_kinds[i] = name
            if name in ('all', 'repl_all') and acc >= 2:
                nontriv_acc = True
            since = ''
            acc = 0
    idxs = [i for i in range(n) if wants[i] is not None]
    cor = None
    if idxs and D.chance(3, 4):
        i = D.choice(idxs)
        prev = [j for j in idxs if j < i]
        since_i = ''
        for j in range((prev[-1] + 1) if prev else 0, i):
            since_i += info[j]['out']
        allowed = set(want_options(stmts, info, i, since_i).values())
        earlier = [info[j]['rep'] for j in range(i) if info[j]['valued']]
        cor = corrupt(D, wants, i, prev[-1] if prev else None, 'JUNK{}'.format(n), allowed, earlier)
    silent = [i for i in range(n) if wants[i] is None and info[i]['out'] == '' and not info[i]['valued']]
    if silent and D.chance(1, 8):
        # a want under a statement that prints nothing and has no value: a lone quote character matches no output, none at all included
        cor = {'at': D.choice(silent), 'kind': 'lone_quote_on_silent', 'text': D.choice(["'\n", '"\n'])}
    indent = D.choice(['', '    '])
    return {'mode': 'wants', 'stmts': stmts, 'wants': wants, 'want_kinds': want_kinds, 'corruption': cor,
            'indent': indent, 'acc': nontriv_acc}


def _check(case, ctx):
    ctx.count()
    wants = case['wants']
    nw = sum(1 for w in wants if w is not None)
    for kd in case['want_kinds']:
        if kd:
            ctx.tag('want:' + kd)
    cor = case['corruption']
    if cor:
        ctx.tag('corruption:' + cor['kind'])
    if nw == 0:
        ctx.tag('wantless_program')
    for s in case['stmts']:
        ctx.tag('kind:' + s['kind'])
    first = next((i for i, w in enumerate(wants) if w is not None), None)
    if nw >= 2 or case.get('acc') or (cor and cor['at'] != first):
        ctx.nontriv((case['stmts'], wants, cor), {'doc': build_doc(case['stmts'], wants)[0], 'corruption': cor})
    check_case(case, ctx)


def hyp_programs(ctx, n_examples, max_stmts):
    engine.hyp_run(ctx, case_strategy(max_stmts), _check, n_examples)


NOTHING_RAN = [
    '>>> # only a comment\n',
    '>>> # one\n>>> # two\n',
    '>>>\n',
    '>>> \n>>> # c\n',
    'text\n\n    >>> # indented comment only\n',
    '>>> # comment\n\n>>> # another group\n',
    # every statement skipped by a directive, with and without plain comments beside the skipped code
    '>>> # xdoctest: +SKIP\n>>> T.append(1)\n>>> print(1)\nwrong\n',
    '>>> # a remark\n>>> # xdoctest: +SKIP\n>>> T.append(1)\n',
    '>>> T.append(1)  # xdoctest: +SKIP\n>>> # a remark in between\n>>> T.append(2)  # xdoctest: +SKIP\n',
    '>>> T.append(1)  # xdoctest: +SKIP\nwrong\n>>> # xdoctest: -SKIP\n>>> # trailing remark\n',
    '>>> # xdoctest: +REQUIRES(env:VP_NEVER_SET_VARIABLE==1)\n>>> T.append(1)\n\n>>> # a remark in a second group\n',
    '>>> # remark\n>>> T.append(1)  # xdoctest: +REQUIRES(module:vp_no_such_module)\n',
]


def nothing_ran(ctx):
    for doc in NOTHING_RAN:
        ctx.count()
        ctx.tag('nothing_ran')
        ctx.guard(lambda case, c: check_case(case, c), {'mode': 'nothing_ran', 'doc': doc})


def enum_placements(ctx, shard, nshards, maxlen):
    """every program of <= maxlen statements over ENUM_KINDS x every placement of correct wants;
    for each placement every 'replace' corruption."""
    progs = []
    for n in range(1, maxlen + 1):
        for kinds in itertools.product(ENUM_KINDS, repeat=n):
            progs.append(kinds)
    cnt = 0
    nt = 0
    sample = None
    for kinds in progs[shard::nshards]:
        stmts = [make_stmt(k + 1, kd) for k, kd in enumerate(kinds)]
        info, _ = analyse(stmts)

        def rec(i, since, wants, wkinds):
            if i == len(stmts):
                yield list(wants), list(wkinds)
                return
            opts = want_options(stmts, info, i, since)
            yield from rec(i + 1, since + info[i]['out'], wants + [None], wkinds + [None])
            for name in sorted(opts):
                yield from rec(i + 1, '', wants + [opts[name]], wkinds + [name])
        for wants, wkinds in rec(0, '', [], []):
            idxs = [i for i, w in enumerate(wants) if w is not None]
            cors = [None] if not idxs else [{'at': i, 'kind': 'replace', 'text': 'JUNK\n'} for i in idxs]
            for cor in cors:
                case = {'mode': 'wants', 'stmts': stmts, 'wants': wants, 'want_kinds': wkinds, 'corruption': cor}
                cnt += 1
                ctx.guard(check_case, case)
                if len(idxs) >= 2 or (cor and cor['at'] != idxs[0]):
                    nt += 1
                    if sample is None:
                        sample = {'doc': build_doc(stmts, wants)[0], 'corruption': cor}
    ctx.count(cnt)
    ctx.nontriv_bulk(nt, sample)
    ctx.classes['enum:cases'] += cnt
    if shard == 0:
        ctx.exhaustive.append('all programs of <= {} statements over {} x all placements of correct wants x each '
                              'single replace-corruption'.format(maxlen, ENUM_KINDS))


def selftest():
    stmts = [make_stmt(1, 'print'), make_stmt(2, 'value'), make_stmt(3, 'semi_value')]
    info, tr = analyse(stmts)
    assert tr == [1, 2, 3]
    assert info[0]['out'] == 'o1 None\n' and info[1]['rep'] == '21' and not info[0]['valued']
    assert echo_mode(stmts[2], info[2]) and not echo_mode(stmts[1], info[1])
    o = want_options(stmts, info, 1, 'o1 None\n')
    assert o['all'] == 'o1 None\n' and o['val'] == '21\n' and o['repl_all'] == 'o1 None\n21\n'
    for kd in KINDS:
        analyse([make_stmt(1, kd)])


def jobs(tier):
    per, ms = (700, 6) if tier == 'quick' else (12000, 8)
    out = [('hyp_programs#%d' % s, 'hyp_programs', dict(n_examples=per, max_stmts=ms)) for s in range(16)]
    out.append(('nothing_ran', 'nothing_ran', {}))
    ml = 3 if tier == 'quick' else 4
    nsh = 16 if tier == 'quick' else 48
    out += [('enum#%d' % s, 'enum_placements', dict(shard=s, nshards=nsh, maxlen=ml)) for s in range(nsh)]
    return out
