"""
C13 — Parsing partitions the docstring: each line is text, source or want, once.

Docstrings are assembled from labelled building blocks, so the intended label
of every line is known by construction; ``DoctestParser().parse`` must
reproduce the docstring line for line, with the right label for every line and
the right first-line index for every part.
"""
import re
import itertools

from hypothesis import strategies as st

from vp import engine
from vp.engine import Violation
from vp.gen import programs
from vp.gen.draw import composite

ID = 'C13'
DESIGN_REF = '6.13'
TECHNIQUE = ('Hypothesis-assembled docstrings from labelled building blocks (+ bounded-exhaustive block sequences); '
             'oracle = by-construction label table and round-trip reconstruction of the docstring')
LEVEL_TEXT = ("Docstrings of 1-40 lines built from labelled blocks (prose, blank and whitespace-only lines, google tags, "
              "statements in every prompt style incl. bare '...' terminators and unprefixed string lines, wants of 1-6 lines "
              "incl. lines starting with '...', de-indented terminators, nested indentation, tabs, trailing whitespace, "
              "missing final newline) are parsed; parts joined back must give the tab-expanded, de-indented docstring line "
              "for line, every line must carry its by-construction label and every part its first-line index. All "
              "sequences of <= 4 (quick) / 5 (thorough) blocks over 9 block kinds are enumerated; Hypothesis samples beyond.")
LEVEL_NOTE = ("Trusted: the generator's label bookkeeping (labels follow the statement's definitions word for word). Lines "
              "rewritten by the parser's triple-quote rule are compared modulo the inserted '... '. Prompts at inconsistent "
              "indentation inside one chunk and unbalanced source are outside the domain (C14).")
RULE = ("docstrings assembled from labelled blocks. Non-trivial: >= 2 chunks, >= 1 want, >= 1 text part between chunks and "
        ">= 1 of {want line starting with '...', bare '...' terminator, de-indented terminator, nested indentation}. "
        "Distinct = distinct docstring text.")
ASSUMPTIONS = [
    "str.expandtabs defines 'tab-expanded'; a line ends at \\n, \\r\\n or a lone \\r, as in a source file",
    "within one chunk every prompt stands at the same indentation (well-formed docstrings)",
]

WORDS = ['alpha', 'beta text here', 'Returns: something', 'see >> below', '.... dots', 'x = 1 is code-like prose', '1',
         '[1, 2]', 'foo (int): bar', '<BLANKLINE>', 'a  b', 'ends with colon:', '>>>nospace', '...nospace',
         'trailing blanks  ', 'Traceback (most recent call last):', '# looks like a comment', 'form feed \x0c and \x1c inside',
         'vt \x0b here', 'nel \x85 and \u2028 here']
TAGS = ['Example:', 'Args:', 'Returns:', 'Doctest:', 'Note:']
# statement shapes: list of [mark, text]; marks as in vp/gen/programs.py
STMTS = [
    [['', 'x = 1']], [['', 'print(x)']], [['', 'y = ['], ['', '    1,'], ['', '    2]']],
    [['', 'for i in range(2):'], ['', '    print(i)']], [['', 'def f():'], ['', '    return 1']],
    [['', 's = """a'], ['', 'b"""']], [['', 'z = (1 +'], ['', '     2)']], [['', '# comment']], [['', 'x = 1; y = 2']],
    [['', 'if x:'], ['', '    pass'], ['', 'else:'], ['', '    pass']], [['', '@dec'], ['', 'def g():'], ['', '    pass']],
    [['', 'f(1)  # xdoctest: +SKIP']],
    [['', "t = '''first"], ['U4', '  unprefixed'], ['', "'''"]],
    [['', "t = '''"], ['U0', 'col zero text'], ['', "'''"]],
    [['', 'u = """q'], ['U4', ''], ['U4', 'after blank'], ['', '"""']],
    [['', 'class A:'], ['', '    x = 1'], ['', ''], ['', '    def m(self):'], ['', '        pass']],
]


def stmt_lines(stmt, style):
    """-> list of (docstring line relative to chunk indent, is_hack_line)"""
    out = []
    n = len(stmt)
    for i, (mark, text) in enumerate(stmt):
        if mark == 'U4':
            out.append((('    ' + text) if text else '', False))
        elif mark == 'U0':
            out.append((text, True))
        else:
            pre = '>>> ' if (i == 0 or style == 'new') else '... '
            out.append(((pre + text).rstrip() if text == '' else pre + text, False))
    lastpref = '>>>' if (style == 'new' or n == 1) else '...'
    if any(mark == 'U0' for mark, _ in stmt):
        # continuation ambiguity: after a statement holding a line rewritten by the triple-quote rule a bare
        # '...' is read as source whatever the prompt of the closing line; never generated as first want line
        lastpref = '...'
    if style == 'oldterm' and n > 1 and not stmt[-1][0]:
        out.append(('...', False))
        lastpref = '...'
    return out, lastpref


def assemble(blocks):
    """
    blocks: JSON list describing the docstring (see ``block_strategy``).
    Returns list of (label, line, hack) before tab conversion.
    """
    L = []
    for b in blocks:
        kind = b['kind']
        if kind == 'blank':
            L.append(('text', b.get('ws', ''), False))
        elif kind in ('prose', 'tag'):
            for w, ind in b['lines']:
                L.append(('text', ' ' * ind + w, False))
        elif kind == 'chunk':
            ind = b['indent']
            for st_i, style in b['stmts']:
                lines, lastpref = stmt_lines(STMTS[st_i], style)
                for ln, hack in lines:
                    L.append(('src', (' ' * ind + ln) if ln else '', hack))
            for w, extra in b.get('want', []):
                L.append(('want', ' ' * (ind + extra) + w, False))
    return L


def to_text(case):
    L = assemble(case['blocks'])
    lines = []
    for i, (lab, ln, hack) in enumerate(L):
        if i in case.get('tab_lines', []) and ln.startswith('        '):
            ln = '\t' + ln[8:]
        lines.append(ln)
    text = '\n'.join(lines)
    if case.get('final_newline', True):
        text += '\n'
    return text, L


def expected_lines(text):
    s = text.expandtabs()
    # the lines the text has in a file: broken at \n, \r\n and a lone \r only (not at form feeds, separators, NEL, U+2028...)
    lines = re.split('\r\n|\n|\r', s)
    if lines and lines[-1] == '':
        lines.pop()
    inds = [len(ln) - len(ln.lstrip(' ')) for ln in lines if ln.strip(' ')]
    # only blanks count as indentation (as in the documented behaviour: common leading blanks)
    inds = [len(ln) - len(ln.lstrip(' ')) for ln in lines if ln.strip()]
    m = min(inds) if inds else 0
    return [ln[m:] for ln in lines]


def check_text(text, labels):
    """labels: list of (label, hack) per docstring line"""
    from xdoctest import parser as P
    from xdoctest import exceptions
    exp = expected_lines(text)
    if len(exp) != len(labels):
        # a trailing empty line is dropped by splitlines
        labels = labels[:len(exp)]
    try:
        parser = P.DoctestParser()
        if REUSE_PARSER[0]:
            # the same parser object has just failed on another docstring (a broken statement in its third chunk)
            try:
                parser.parse(">>> a = 1\n>>> print(a)\n1\n>>> print(a + 1)\n2\n>>> b = 3 = 5\n")
            except exceptions.DoctestParseError:
                pass
        parts = parser.parse(text)
    except exceptions.DoctestParseError as ex:
        raise Violation('parse_error:' + type(ex.orig_ex).__name__,
                        'well-formed docstring rejected: {!r}\n{}'.format(ex.orig_ex, text))
    got = []
    for p in parts:
        if isinstance(p, str):
            for ln in p.split('\n'):
                got.append(('text', ln, None))
        else:
            if p.line_offset != len(got):
                raise Violation('line_offset', 'part {!r} records first-line index {} but starts at line {}\n{}'.format(
                    p, p.line_offset, len(got), text))
            if not p.exec_lines:
                raise Violation('empty_part', 'part without executable lines\n{}'.format(text))
            if len(p.orig_lines) != len(p.exec_lines):
                raise Violation('orig_exec_mismatch', 'orig_lines and exec_lines differ in length\n{}'.format(text))
            base = exp[len(got)] if len(got) < len(exp) else ''
            ind = len(base) - len(base.lstrip(' '))
            for ln in p.orig_lines:
                got.append(('src', ln, ind))
            for ln in (p.want_lines or []):
                got.append(('want', ln, ind))
    lost_trailing = False
    if len(got) == len(exp) - 1 and exp and not exp[-1].strip():
        # one final blank line is missing (finding F14): check everything else first
        lost_trailing = True
        exp = exp[:-1]
        labels = labels[:len(exp)]
    if len(got) != len(exp):
        raise Violation('line_count:' + ('lost' if len(got) < len(exp) else 'extra'),
                        'parts hold {} lines, the docstring has {}\n{}'.format(len(got), len(exp), text))
    for i, ((gl, gline, ind), eline, (el, hack)) in enumerate(zip(got, exp, labels)):
        if gl != el:
            raise Violation('label:{}_as_{}'.format(el, gl),
                            'line {} {!r} is {} by construction but was parsed as {}\n{}'.format(i, eline, el, gl, text))
        if ind is None:
            ok = gline == eline
        else:
            want = eline[ind:]
            ok = gline == want or (hack and gline == '... ' + want)
        if not ok:
            raise Violation('content:' + gl, 'line {} reproduced as {!r}, docstring has {!r}\n{}'.format(
                i, gline, eline, text))
    if lost_trailing:
        raise Violation('line_count:lost_trailing_blank_line',
                        'the final blank line of a de-indented docstring is not part of any part ({} of {} lines '
                        'reproduced)\n{!r}'.format(len(got), len(got) + 1, text))
    return parts


def check_case(case, ctx):
    if 'doc' in case:
        text = case['doc']
        labels = [(lab if lab != 'src' else 'src', False) for lab, _ in case['labels']]
        # lines of unprefixed col-0 string text are rewritten by the triple-quote rule
        labels = [(lab, True) for lab, _ in labels]
        return check_text(text, labels)
    text, L = to_text(case)
    REUSE_PARSER[0] = bool(case.get('reuse'))
    try:
        return check_text(text, [(lab, hack) for lab, _, hack in L])
    finally:
        REUSE_PARSER[0] = False


# ---------------------------------------------------------------------------


REUSE_PARSER = [False]     # set per case by check_case (a parser object re-used after a failed parse)


@composite
def block_strategy(D, max_blocks=7):
    B = D.choice([0, 4, 8])
    blocks = []
    state = 'text'
    I = None
    feats = set()
    for _ in range(D.int(1, max_blocks)):
        kind = D.choice(['chunk', 'prose', 'chunk', 'blank', 'tag'])
        if kind == 'blank' or (kind in ('prose', 'tag') and state in ('src', 'want')):
            if state in ('src', 'want') and I > B and kind == 'prose' and D.bool():
                # a de-indented line terminates source / want - also when, counted from the prompt's column, it reads
                # like a prompt ("Try >>> help(x)" under an example indented by four)
                word = D.choice(WORDS)
                if D.chance(1, 3):
                    word = ('Try it' * 3)[:I - B - 1] + ' ' + D.choice(['>>> help(thing)', '... and so on', '>>> 1 +', '...'])
                    feats.add('dedent_terminator_with_prompt_at_column')
                blocks.append({'kind': 'prose', 'lines': [[word, B]]})
                state = 'text'
                feats.add('dedent_terminator')
                continue
            ws = D.choice(['', '', '   ', ' ' * (B + 6)])
            blocks.append({'kind': 'blank', 'ws': ws})
            state = 'text'
            if kind == 'blank':
                continue
        if kind == 'prose':
            blocks.append({'kind': 'prose', 'lines': [[D.choice(WORDS), D.choice([B, B + 4])] for _ in range(D.int(1, 3))]})
            state = 'text'
        elif kind == 'tag':
            blocks.append({'kind': 'tag', 'lines': [[D.choice(TAGS), B]]})
            state = 'text'
        else:
            newI = D.choice([B, B + 4, B + 8])
            if state in ('src', 'want'):
                newI = I            # prompts of one run of examples stay at one indentation
            if newI > B:
                feats.add('nested_indent')
            I = newI
            stmts = []
            lastpref = '>>>'
            for _ in range(D.int(1, 3)):
                si = D.int(0, len(STMTS) - 1)
                style = D.choice(['new', 'old', 'oldterm'])
                stmts.append([si, style])
                _, lastpref = stmt_lines(STMTS[si], style)
                if lastpref == '...' and style == 'oldterm':
                    feats.add('bare_terminator')
            want = []
            if D.chance(1, 2):
                for j in range(D.int(1, 6)):
                    w = D.choice(WORDS + ['...', '... more', 'out', '>>>x'])
                    if j == 0 and (w.startswith('... ') or (w == '...' and lastpref == '...')):
                        w = 'out'
                    if j > 0 and w.startswith('...'):
                        feats.add('want_line_with_dots')
                    want.append([w, D.choice([0, 0, 2])])
            blocks.append({'kind': 'chunk', 'indent': I, 'stmts': stmts, 'want': want})
            state = 'want' if want else 'src'
    n_lines = len(assemble(blocks))
    tab_lines = D.subset(range(n_lines)) if D.chance(1, 4) else []
    reuse = D.chance(1, 5)
    if reuse:
        feats.add('parser_reused_after_failure')
    return {'blocks': blocks, 'tab_lines': tab_lines, 'final_newline': D.chance(3, 4), 'features': sorted(feats), 'reuse': reuse}


def _classify(case, ctx):
    blocks = case['blocks']
    chunks = [b for b in blocks if b['kind'] == 'chunk']
    n_want = sum(1 for b in chunks if b.get('want'))
    text_between = False
    seen_chunk = False
    pending_text = False
    for b in blocks:
        if b['kind'] == 'chunk':
            if seen_chunk and pending_text:
                text_between = True
            seen_chunk = True
            pending_text = False
        elif b['kind'] in ('prose', 'tag') and seen_chunk:
            pending_text = True
    for f in case.get('features', []):
        ctx.tag('feat:' + f)
    if case.get('tab_lines'):
        ctx.tag('feat:tabs')
    if not case.get('final_newline', True):
        ctx.tag('feat:no_final_newline')
    return len(chunks) >= 2 and n_want >= 1 and text_between and bool(case.get('features'))


def _check(case, ctx):
    ctx.count()
    if _classify(case, ctx):
        ctx.nontriv(to_text(case)[0], {'doc': to_text(case)[0]})
    check_case(case, ctx)


def hyp_blocks(ctx, n_examples):
    engine.hyp_run(ctx, block_strategy(), _check, n_examples)


@composite
def program_doc(D):
    c = programs.gen_program(D, max_groups=6)
    return {'doc': c['doc'], 'labels': c['labels']}


def _check_prog(case, ctx):
    ctx.count()
    ctx.tag('via:program_generator')
    labs = [lab for lab, _ in case['labels']]
    if labs.count('want') and 'text' in labs:
        ctx.nontriv(case['doc'])
    check_case(case, ctx)


def hyp_programs(ctx, n_examples):
    engine.hyp_run(ctx, program_doc(), _check_prog, n_examples)


# bounded exhaustive: sequences of block kinds
ENUM_BLOCKS = [
    {'kind': 'prose', 'lines': [['alpha', 0]]},
    {'kind': 'blank', 'ws': ''},
    {'kind': 'tag', 'lines': [['Example:', 0]]},
    {'kind': 'chunk', 'indent': 4, 'stmts': [[0, 'new']], 'want': []},
    {'kind': 'chunk', 'indent': 4, 'stmts': [[1, 'new']], 'want': [['out', 0]]},
    {'kind': 'chunk', 'indent': 4, 'stmts': [[3, 'oldterm']], 'want': [['0', 0], ['... more', 0]]},
    {'kind': 'chunk', 'indent': 4, 'stmts': [[2, 'old'], [0, 'new']], 'want': [['...', 0]]},
    {'kind': 'chunk', 'indent': 4, 'stmts': [[12, 'old']], 'want': []},
    {'kind': 'prose', 'lines': [['deeper prose', 8]]},
]


def _wellformed_seq(seq):
    """prose/tag directly after a chunk would be a want by definition: require separation, and
    deeper prose directly after a chunk *is* a want, so skip those sequences"""
    prev = None
    for b in seq:
        if prev is not None and prev['kind'] == 'chunk' and b['kind'] in ('prose', 'tag'):
            ind = b['lines'][0][1]
            if ind >= prev['indent']:
                return False
        prev = b
    return True


def enum_blocks(ctx, shard, nshards, maxlen):
    cnt = 0
    nt = 0
    sample = None
    idx = 0
    for n in range(1, maxlen + 1):
        for seq in itertools.product(ENUM_BLOCKS, repeat=n):
            idx += 1
            if idx % nshards != shard:
                continue
            if not _wellformed_seq(seq):
                continue
            case = {'blocks': list(seq), 'tab_lines': [], 'final_newline': True}
            cnt += 1
            ctx.guard(check_case, case)
            chunks = [b for b in seq if b['kind'] == 'chunk']
            if len(chunks) >= 2 and any(b.get('want') for b in chunks):
                nt += 1
                if sample is None and n == maxlen:
                    sample = {'doc': to_text(case)[0]}
    ctx.count(cnt)
    ctx.nontriv_bulk(nt, sample)
    ctx.classes['enum:docstrings'] += cnt
    if shard == 0:
        ctx.exhaustive.append('all well-formed sequences of <= {} blocks over {} block kinds'.format(maxlen, len(ENUM_BLOCKS)))


def selftest():
    case = {'blocks': [{'kind': 'prose', 'lines': [['intro', 0]]}, {'kind': 'blank', 'ws': ''},
                       {'kind': 'chunk', 'indent': 4, 'stmts': [[3, 'oldterm']], 'want': [['0', 0], ['1', 0]]}],
            'tab_lines': [], 'final_newline': True}
    text, L = to_text(case)
    assert [lab for lab, _, _ in L] == ['text', 'text', 'src', 'src', 'src', 'want', 'want'], L
    assert expected_lines('\tx\n\t  y\n') == ['x', '  y']
    # a wrong label table must be rejected (the oracle is not vacuous)
    try:
        check_text(text, [('text', False)] * 7)
    except Violation:
        pass
    else:
        raise AssertionError('label check is vacuous')


def jobs(tier):
    per = 1500 if tier == 'quick' else 30000
    out = [('hyp_blocks#%d' % s, 'hyp_blocks', dict(n_examples=per)) for s in range(12)]
    out += [('hyp_programs#%d' % s, 'hyp_programs', dict(n_examples=per // 3)) for s in range(4)]
    ml = 4 if tier == 'quick' else 5
    nsh = 8 if tier == 'quick' else 32
    out += [('enum#%d' % s, 'enum_blocks', dict(shard=s, nshards=nsh, maxlen=ml)) for s in range(nsh)]
    return out
