"""
C16 — Static and dynamic analysis find the same doctests.

Generated *importable* modules (G3 restricted to content whose callables are
defined by ordinary def/class statements in the module, plus imported names
with doctests of their own that both collectors must ignore) are collected
with analysis='static' and analysis='dynamic' in the three styles.  The two
sorted lists of (identifier, doctest source) must be equal; because a common
omission would be invisible to a pure differential, both sides are also
compared with the generator's inventory, and a disagreement is attributed to
the side that differs from it.
"""
import os

from vp import engine, sandbox
from vp.engine import Violation
from vp.gen import modules
from vp.gen.draw import composite
from vp.props import c07

ID = 'C16'
DESIGN_REF = '6.16'
TECHNIQUE = ('Hypothesis-generated importable modules x style; differential static vs dynamic collection '
             '(sorted (identifier, doctest source) lists), both sides also compared with the by-construction inventory')
LEVEL_TEXT = ("Generated importable modules (functions, async functions, classes with plain / static / class methods, "
              "property getters with same-named setters and deleters, functools.wraps-decorated functions and methods, "
              "decorator lists, dunder and underscore names, definitions under if/try/with that execute, subclasses without "
              "docstrings, nested functions and classes, a main guard, lambdas and assignments, a sibling module whose "
              "function and class - which carry doctests of their own - are imported under their own and another name and "
              "bound as class attributes) are collected with analysis='static' and 'dynamic' in the styles auto, google and "
              "freeform; the sorted (identifier, doctest source) lists must be equal and both must equal the generator's "
              "inventory. Randomised differential exploration with shrinking.")
LEVEL_ADDED = ('A sixth of the files are saved with a UTF-8 byte order mark, a sixth with CRLF line ends.')
LEVEL_NOTE = ("Trusted: the generator's inventory as tie-breaker; CPython's import of the generated module. Excluded because "
              "Python semantics, not xdoctest, make the two views differ: aliases (g = f), decorators without wraps, setters "
              "under a different name, definitions in branches that do not run, names deleted after definition, docstrings "
              "assigned programmatically, duplicate names other than a documented definition shadowed by a later undocumented one "
              "(generated: the later definition wins for both analyses). Line numbers are not compared (dynamic analysis reports 1 by "
              "design).")
RULE = ("importable modules of 2-7 top-level items x 3 styles. Non-trivial: >= 1 decorated callable, >= 1 class with >= 3 "
        "method kinds and imported names with doctests. Distinct = distinct module source.")
ASSUMPTIONS = [
    "the module imports cleanly (by construction); every branch holding a definition executes",
    "identifiers are compared as (callname, index) and the doctest source as docsrc text",
]
STYLES = ['auto', 'google', 'freeform']


def _collect(path, style, analysis):
    from xdoctest import core
    with sandbox.quiet():
        exs = list(core.parse_doctestables(path, style=style, analysis=analysis))
    return sorted(('{}:{}'.format(e.callname, e.num), e.docsrc) for e in exs)


def check_case(case, ctx):
    lines = case['lines']
    name = sandbox.unique_name('vpc16')
    helper = name + '_helper'
    with sandbox.scratch('c16') as d:
        path = os.path.join(d, name + '.py')
        src = '\n'.join(lines) + '\n'
        src = src.replace(modules.HELPER, helper)
        # how the file is saved is not the module's business: byte order mark (utf-8-sig), CRLF line ends
        data = src.replace('\n', '\r\n') if case.get('crlf') else src
        with open(path, 'wb') as f:
            f.write((b'\xef\xbb\xbf' if case.get('bom') else b'') + data.encode('utf-8'))
        with open(os.path.join(d, helper + '.py'), 'w') as f:
            f.write(modules.HELPER_SOURCE)
        try:
            for style in STYLES:
                stat = _collect(path, style, 'static')
                dyn = _collect(path, style, 'dynamic')
                exp = modules.expected_inventory(case, style)
                want_ids = sorted('{}:{}'.format(x['callname'], x['num']) for x in exp)
                sids = [a for a, _ in stat]
                dids = [a for a, _ in dyn]
                if sids != dids:
                    only_s = sorted(set(sids) - set(dids))
                    only_d = sorted(set(dids) - set(sids))
                    # attribute to the side that differs from the inventory
                    if dids != want_ids and sids == want_ids:
                        side = 'dynamic'
                    elif sids != want_ids and dids == want_ids:
                        side = 'static'
                    else:
                        side = 'both'
                    sym = (only_s or only_d or ['?'])[0].split(':')[0]
                    raise Violation('ids_differ:{}:{}'.format(side, c07._name_hint(case, sym)),
                                    'style {}: only static {} only dynamic {} (inventory says {})\n{}'.format(
                                        style, only_s, only_d, want_ids, c07._numbered(src.split('\n'))))
                if sids != want_ids:
                    missing = sorted(set(want_ids) - set(sids))
                    extra = sorted(set(sids) - set(want_ids))
                    sym = (missing or extra or ['?'])[0].split(':')[0]
                    raise Violation('both_differ_from_inventory:{}'.format(c07._name_hint(case, sym)),
                                    'style {}: both analyses agree but miss {} / add {}\n{}'.format(
                                        style, missing, extra, c07._numbered(src.split('\n'))))
                for (a, s1), (b, s2) in zip(stat, dyn):
                    if s1 != s2:
                        raise Violation('docsrc_differs:{}'.format(c07._name_hint(case, a.split(':')[0])),
                                        'style {}: doctest {} has different source under the two analyses:\n'
                                        '--- static\n{}\n--- dynamic\n{}'.format(style, a, s1, s2))
        finally:
            sandbox.purge_modules([name, helper])


@composite
def module_strategy(D, max_items):
    m = modules.build_module(D, importable=True, fail_kinds=(None,), max_items=max_items, helper=True)
    case = modules.case_of(m)
    case['bom'] = D.chance(1, 6)
    case['crlf'] = D.chance(1, 6)
    case['features'] = sorted(set(case['features']) | ({'utf8_bom'} if case['bom'] else set()) | ({'crlf'} if case['crlf'] else set()))
    return case


def _check(case, ctx):
    ctx.count(6)
    feats = set(case['features'])
    for f in feats:
        ctx.tag(f)
    if 'decorated' in feats and 'class_with_3plus_method_kinds' in feats and 'imported_names_with_doctests' in feats:
        ctx.nontriv('\n'.join(case['lines']), {'module': '\n'.join(case['lines'])})
    check_case(case, ctx)


def hyp_modules(ctx, n_examples, max_items):
    engine.hyp_run(ctx, module_strategy(max_items), _check, n_examples)


def health(tot, tier):
    c = tot['classes']
    n = max(1, c.get('imported_names_with_doctests', 0))
    for need in ('async_def', 'decorated', 'property', 'mustnot:main_guard', 'conditional', 'mustnot:nested_class',
                 'class_attr_imported_callable', 'class_with_3plus_method_kinds'):
        if c.get(need, 0) < 0.01 * n:
            return 'class {} is below 1% of the generated cases'.format(need)
    return None


def selftest():
    # the generated module must be importable and define exactly the inventory's callables
    import importlib.util
    import sys
    from vp.props.c07 import selftest as _s07
    _s07()
    from vp.gen.draw import D

    class FakeD(D):
        def __init__(self):
            self.i = 0

        def int(self, lo, hi):
            self.i += 1
            return lo + (self.i * 7) % (hi - lo + 1)

        def bool(self):
            self.i += 1
            return self.i % 2 == 0

        def chance(self, num, den):
            self.i += 1
            return (self.i * 5) % den < num

        def choice(self, seq):
            seq = list(seq)
            self.i += 1
            return seq[(self.i * 3) % len(seq)]
    m = modules.build_module(FakeD(), max_items=7, helper=True)
    name = sandbox.unique_name('vpc16s')
    with sandbox.scratch('c16s') as d:
        src = ('\n'.join(m.lines) + '\n').replace(modules.HELPER, name + '_helper')
        with open(os.path.join(d, name + '.py'), 'w') as f:
            f.write(src)
        with open(os.path.join(d, name + '_helper.py'), 'w') as f:
            f.write(modules.HELPER_SOURCE)
        sys.path.insert(0, d)
        try:
            mod = importlib.import_module(name)
            for cn in m.callnames:
                if cn == '__doc__':
                    continue
                obj = mod
                for part in cn.split('.'):
                    obj = obj.__dict__[part] if isinstance(obj, type) else getattr(obj, part)
        finally:
            sys.path.remove(d)
            sandbox.purge_modules([name, name + '_helper'])


def jobs(tier):
    per = 250 if tier == 'quick' else 3000
    return [('hyp_modules#%d' % s, 'hyp_modules', dict(n_examples=per, max_items=7)) for s in range(16)]
