"""
C11 — Runs are isolated: a doctest behaves the same whatever ran before it.

A Hypothesis rule-based state machine drives a pool of doctests collected from
one generated module through histories of runs (pooled objects, re-runs of the
same object, freshly collected objects, whole-module runs, a phase flip of an
environment variable).  The expected verdict, exception class and recorded
stdout of every doctest are a function of (template, phase) only - never of
the history.
"""
import copy
import os
import sys
import warnings

from hypothesis import strategies as st
from hypothesis.stateful import RuleBasedStateMachine, initialize, precondition, rule

from vp import engine, sandbox
from vp.engine import HarnessError, Violation

ID = 'C11'
DESIGN_REF = '6.11'
TECHNIQUE = ('Hypothesis rule-based state machine over histories of doctest runs (pooled objects, repetitions, fresh '
             'collection, whole-module runs, environment phase flips); oracle = history-independent expectation table '
             '(verdict, exception class, recorded stdout, report style) + invariants on module globals, default directive '
             'state and the shared config dict after every step')
LEVEL_TEXT = ("A state machine builds a module with a global G, a function reading it and a pool of 6-14 doctests drawn from 22 "
              "templates (binds a name others read; reads a name only another doctest binds; checks that its own name is unset "
              "and then sets it; rebinds the module global; reads the module global directly and through module code; ends "
              "with SKIP / an unmet REQUIRES / REPORT_NDIFF / IGNORE_WANT / -ELLIPSIS switched on; a multi-line wrong want whose "
              "report style is visible; replaces sys.stdout; sets warning filters to 'error'; emits a warning; leaves unmatched "
              "output behind in one phase and would profit from it in the other; fails after binding a name it first tests "
              "for; changes the warning filters and then fails; mutates an object created by the global_exec preamble) and runs histories of up to 30 (quick) / 50 (thorough) steps: run a pooled object (verbosity 0-3), run it "
              "again, run a freshly collected object, run the whole module through doctest_module with a shared non-empty "
              "default option dict, flip the phase, re-collect. After every run the verdict, the exception class, the recorded "
              "stdout and (for the wrong-want template) the diff style must be what the table says for (template, phase); "
              "after every step the module's G and getG() must be 'orig', directive.DEFAULT_RUNTIME_STATE must equal its "
              "pristine deep copy, the shared option dict must be unchanged, sys.stdout and the warning filters must be the "
              "ones found before. Randomised exploration of histories with shrinking.")
LEVEL_ADDED = ("Further templates: a doctest that leaves a task pending on the event loop, a doctest that awaits a sleep (a left-over task must never run during it); after every run, inside the harness's own redirection, sys.stdout / sys.stderr must be the very streams that run started under.")
LEVEL_NOTE = ("Trusted: the expectation table (each entry is cross-checked by a solo run of a freshly collected doctest at "
              "machine start; a disagreement there is reported as such, not as a history effect). State that legitimately "
              "persists (the imported module object and whatever a doctest stores into it by attribute assignment) is not used "
              "by any template. Pooled objects are re-run with on_error='return' (what the native runner uses and after which "
              "the namespace is cleared); on_error='raise' is exercised on freshly collected objects.")
RULE = ("one history per example. Non-trivial: >= 4 runs, a repetition of the same pooled object, and a run that follows a "
        "template which leaves state on. Distinct = distinct sequence of (rule, template) pairs.")
ASSUMPTIONS = [
    "re-running the same DocTest object is legitimate (the native runner and rerun plugins do it); it is re-run with on_error='return'",
    "the imported module object itself legitimately persists between runs",
]

TEMPLATES = ['define', 'read_other', 'unset_then_set', 'rebind_G', 'read_G', 'leave_skip', 'leave_requires', 'leave_ndiff',
             'leave_ignore_want', 'leave_noellipsis', 'wrong_want', 'replace_stdout', 'filter_error', 'warn', 'phase_unmatched',
             'fails_late', 'needs_ellipsis', 'filter_error_then_fail', 'global_exec_mutate', 'quoted_ellipsis_strict',
             'quoted_ellipsis_plain', 'all_skipped', 'half_skipped', 'spawn_task', 'await_sleep']
LEAVES_ON = {'quoted_ellipsis_strict', 'all_skipped', 'half_skipped', 'filter_error_then_fail', 'global_exec_mutate', 'leave_skip', 'leave_requires', 'leave_ndiff', 'leave_ignore_want', 'leave_noellipsis', 'filter_error', 'replace_stdout',
             'define', 'rebind_G', 'phase_unmatched', 'fails_late'}
PHASE_VAR = 'VP_PHASE'


def template_lines(t, k):
    if t == 'define':
        return ['>>> X = {}'.format(k), '>>> print(X)', str(k)]
    if t == 'read_other':
        return ['>>> print(X)']
    if t == 'unset_then_set':
        return [">>> print(globals().get('Y', 'unset'), globals().get('X', 'unset'))", 'unset unset', '>>> Y = {}'.format(k)]
    if t == 'rebind_G':
        return [">>> G = 'changed'", '>>> print(G)', 'changed']
    if t == 'read_G':
        return ['>>> print(G, getG())', 'orig orig']
    if t == 'leave_skip':
        return [">>> print('a{}')".format(k), 'a{}'.format(k), '>>> # xdoctest: +SKIP', ">>> print('never')", 'wrong']
    if t == 'leave_requires':
        return [">>> print('r{}')".format(k), 'r{}'.format(k), '>>> # xdoctest: +REQUIRES(env:VP_NEVER_SET_VARIABLE==1)', ">>> print('never')",
                'wrong']
    if t == 'leave_ndiff':
        return [">>> print('n{}')".format(k), 'n{}'.format(k), '>>> # xdoctest: +REPORT_NDIFF', '>>> z = 1']
    if t == 'leave_ignore_want':
        return [">>> print('i{}')".format(k), 'i{}'.format(k), '>>> # xdoctest: +IGNORE_WANT', ">>> print('x')", 'ignored anyway']
    if t == 'leave_noellipsis':
        return [">>> print('e{}')".format(k), 'e{}'.format(k), '>>> # xdoctest: -ELLIPSIS', '>>> z = 2']
    if t == 'wrong_want':
        return [">>> print('l1'); print('l2'); print('l3'); print('l4')", 'l1', 'l2', 'different', 'l4']
    if t == 'replace_stdout':
        return ['>>> import sys, io', '>>> sys.stdout = io.StringIO()', ">>> print('lost')"]
    if t == 'filter_error':
        return ['>>> import warnings', ">>> warnings.simplefilter('error')", '>>> v = 1']
    if t == 'warn':
        return ['>>> import warnings', ">>> warnings.warn('vp warning {}')".format(k), ">>> print('after')", 'after']
    if t == 'phase_unmatched':
        return ['>>> # xdoctest: +REQUIRES(env:{}==2)'.format(PHASE_VAR), ">>> print('b')", 'a', 'b',
                '>>> # xdoctest: -REQUIRES(env:{}==2)'.format(PHASE_VAR), ">>> print('a')"]
    if t == 'fails_late':
        return [">>> print('fresh' if 'Z' not in globals() else 'stale')", 'fresh', '>>> Z = 1', ">>> raise KeyError('late')"]
    if t == 'needs_ellipsis':
        return [">>> print('head middle tail')", 'head ... tail']
    if t == 'quoted_ellipsis_strict':
        # the same got / want texts as 'quoted_ellipsis_plain', judged with ELLIPSIS switched off
        return ['>>> # xdoctest: -ELLIPSIS', ">>> 'hello world'", 'hello...']
    if t == 'quoted_ellipsis_plain':
        return [">>> 'hello world'", 'hello...']
    if t == 'all_skipped':
        return ['>>> # xdoctest: +SKIP', ">>> print('never {}')".format(k), 'wrong']
    if t == 'half_skipped':
        return [">>> print('h{}')".format(k), 'h{}'.format(k), ">>> print('never')  # xdoctest: +SKIP", 'wrong', ">>> print('again')", 'again']
    if t == 'filter_error_then_fail':
        return ['>>> import warnings', ">>> warnings.simplefilter('error')", ">>> raise LookupError('after changing the filters')"]
    if t == 'spawn_task':
        # leaves a task pending on the event loop when the part (and the doctest) ends: it is not this doctest's business
        # any more afterwards, and must never get to run during somebody else's doctest
        return ['>>> import asyncio', '>>> async def _bg():', '...     await asyncio.sleep(0.001)', "...     print('leftover of {}')".format(k),
                '>>> async def _spawn():', '...     return asyncio.ensure_future(_bg())', '>>> _task = await _spawn()', ">>> print('spawned')",
                'spawned']
    if t == 'await_sleep':
        return ['>>> import asyncio', ">>> print(await asyncio.sleep(0.02, result='slept {}'))".format(k), 'slept {}'.format(k)]
    if t == 'global_exec_mutate':
        # SEEN is created by the global_exec preamble ("code executed before every test"): each doctest gets its own
        return ['>>> SEEN.append({})'.format(k), '>>> print(SEEN)', '[{}]'.format(k)]
    raise KeyError(t)


def expected(t, k, phase):
    """-> (outcome, exception class name or None, recorded stdout)"""
    if t == 'define':
        return 'passed', None, '{}\n'.format(k)
    if t == 'read_other':
        return 'failed', 'NameError', ''
    if t == 'unset_then_set':
        return 'passed', None, 'unset unset\n'
    if t == 'rebind_G':
        return 'passed', None, 'changed\n'
    if t == 'read_G':
        return 'passed', None, 'orig orig\n'
    if t == 'leave_skip':
        return 'passed', None, 'a{}\n'.format(k)
    if t == 'leave_requires':
        return 'passed', None, 'r{}\n'.format(k)
    if t == 'leave_ndiff':
        return 'passed', None, 'n{}\n'.format(k)
    if t == 'leave_ignore_want':
        return 'passed', None, 'i{}\nx\n'.format(k)
    if t == 'leave_noellipsis':
        return 'passed', None, 'e{}\n'.format(k)
    if t == 'wrong_want':
        return 'failed', 'GotWantException', 'l1\nl2\nl3\nl4\n'
    if t == 'replace_stdout':
        return 'passed', None, ''
    if t == 'filter_error':
        return 'passed', None, ''
    if t == 'warn':
        return 'passed', None, 'after\n'
    if t == 'phase_unmatched':
        return ('passed', None, 'a\n') if phase != 2 else ('failed', 'GotWantException', 'b\n')
    if t == 'fails_late':
        return 'failed', 'KeyError', 'fresh\n'
    if t == 'needs_ellipsis':
        return 'passed', None, 'head middle tail\n'
    if t == 'quoted_ellipsis_strict':
        return 'failed', 'GotWantException', ''
    if t == 'quoted_ellipsis_plain':
        return 'passed', None, ''
    if t == 'all_skipped':
        return 'skipped', None, ''
    if t == 'half_skipped':
        return 'passed', None, 'h{}\nagain\n'.format(k)
    if t == 'filter_error_then_fail':
        return 'failed', 'LookupError', ''
    if t == 'global_exec_mutate':
        return 'passed', None, '[{}]\n'.format(k)
    if t == 'spawn_task':
        return 'passed', None, 'spawned\n'
    if t == 'await_sleep':
        return 'passed', None, 'slept {}\n'.format(k)
    raise KeyError(t)


class World(object):
    """the code under test + the bookkeeping; used by the machine and by the plain replay"""

    def __init__(self, templates, with_options=True):
        from xdoctest import directive
        self.templates = list(templates)
        self.with_options = bool(with_options)
        self.name = sandbox.unique_name('vpc11')
        self.dir = sandbox.fresh_dir('c11')
        self.path = os.path.join(self.dir, self.name + '.py')
        L = ["G = 'orig'", '', '', 'def getG():', '    return G', '', '']
        for i, t in enumerate(self.templates):
            L.append('def t{}():'.format(i))
            L.append('    """')
            L.append('    Example:')
            for ln in template_lines(t, i + 100):
                L.append('        ' + ln)
            L.append('    """')
            L += ['', '']
        self.lines = L
        with open(self.path, 'w') as f:
            f.write('\n'.join(L) + '\n')
        self.phase = 1
        self.saved_env = {k: os.environ.get(k) for k in (PHASE_VAR, 'VP_NEVER_SET_VARIABLE')}
        os.environ[PHASE_VAR] = '1'
        os.environ.pop('VP_NEVER_SET_VARIABLE', None)
        self.pristine_defaults = copy.deepcopy(directive.DEFAULT_RUNTIME_STATE)
        # the option dict every doctest of a run shares: non-empty (like --options=+ELLIPSIS) or empty (no options)
        self.shared_state = {'ELLIPSIS': True} if self.with_options else {}
        self.shared_state0 = dict(self.shared_state)
        self.shared_config = {'default_runtime_state': self.shared_state, 'global_exec': 'SEEN = []'}
        self.stdout0 = sys.stdout
        self.filters0 = list(warnings.filters)
        self.history = []
        self.n_runs = 0
        self.pool = self.collect()

    def collect(self):
        from xdoctest import core
        with sandbox.quiet():
            exs = list(core.parse_doctestables(self.path, style='google', analysis='static'))
        exs.sort(key=lambda e: int(e.callname[1:]))
        if [e.callname for e in exs] != ['t{}'.format(i) for i in range(len(self.templates))]:
            raise HarnessError('pool collection differs: {}'.format([e.callname for e in exs]))
        for e in exs:
            e.mode = 'native'
            e.config.update(self.shared_config)      # what runner.doctest_module does with its config
        return exs

    def case(self):
        return {'templates': self.templates, 'with_options': self.with_options, 'history': list(self.history)}

    def fail(self, key, msg):
        src = '\n'.join('{:3d} {}'.format(i + 1, ln) for i, ln in enumerate(self.lines))
        raise Violation(key, '{}\nhistory={}\n{}'.format(msg, self.history, src), case=self.case())

    # ---- steps -----------------------------------------------------------
    def run_obj(self, ex, i, verbose, on_error, what):
        t = self.templates[i]
        exp_outcome, exp_exc, exp_stdout = expected(t, i + 100, self.phase)
        raised = None
        summary = None
        with sandbox.quiet_io() as (out, err):      # (not quiet(): that would restore the warning filters and hide a leak)
            try:
                summary = ex.run(on_error=on_error, verbose=verbose)
            except Exception as e:   # noqa
                raised = e
            # every run happens under a stream of its own: afterwards that very stream is back in place
            streams = (sys.stdout is out, sys.stderr is err)
        if streams != (True, True):
            self.fail('stream_not_restored:' + t, 'after running t{} ({}) sys.stdout / sys.stderr are the ones the run started under: {}'.format(
                i, t, streams))
        self.n_runs += 1
        if summary is not None:
            oc = 'passed' if summary['passed'] else ('failed' if summary['failed'] else ('skipped' if summary['skipped'] else '?'))
        else:
            oc = 'failed'
            if on_error != 'raise':
                self.fail('run_raised:' + t, "run(on_error='return') of template {} raised {!r}".format(t, raised))
        exc = ex.exc_info[0].__name__ if ex.exc_info else None
        got_stdout = ''.join(v for v in ex.logged_stdout.values() if v)
        tag = '{}:{}'.format(what, t)
        if oc != exp_outcome:
            self.fail('outcome:' + tag, 'doctest t{} ({}) is {} ({}), expected {} in phase {}'.format(
                i, t, oc, ex.exc_info and ex.exc_info[1], exp_outcome, self.phase))
        if exc != exp_exc:
            self.fail('exception:' + tag, 'doctest t{} ({}) ended with {} expected {}'.format(i, t, exc, exp_exc))
        if got_stdout != exp_stdout:
            self.fail('stdout:' + tag, 'doctest t{} ({}) recorded stdout {!r} expected {!r}'.format(i, t, got_stdout, exp_stdout))
        if t == 'wrong_want':
            with sandbox.quiet():
                rep = '\n'.join(ex.repr_failure())
            if 'unified diff' not in rep:
                self.fail('report_style:' + tag, 'the failure report of t{} is not a unified diff:\n{}'.format(i, rep[-800:]))
        self.invariants(tag)

    def step(self, op):
        """op: ['run', i, verbose] | ['fresh', i, verbose, on_error] | ['module', verbose] | ['phase', p] | ['recollect']"""
        self.history.append(list(op))
        kind = op[0]
        if kind == 'run':
            i = op[1] % len(self.pool)
            self.run_obj(self.pool[i], i, op[2], 'return', 'rerun' if self._ran(i) else 'run')
            self._mark(i)
        elif kind == 'fresh':
            i = op[1] % len(self.pool)
            ex = self.collect()[i]
            self.run_obj(ex, i, op[2], op[3], 'fresh')
        elif kind == 'module':
            self.run_module(op[1])
        elif kind == 'phase':
            self.phase = op[1]
            os.environ[PHASE_VAR] = str(op[1])
        elif kind == 'recollect':
            self.pool = self.collect()
            self._ran_set = set()
        else:
            raise KeyError(kind)

    def _ran(self, i):
        return i in getattr(self, '_ran_set', set())

    def _mark(self, i):
        if not hasattr(self, '_ran_set'):
            self._ran_set = set()
        self._ran_set.add(i)

    def run_module(self, verbose):
        import xdoctest
        from xdoctest import doctest_example
        config = doctest_example.DoctestConfig()
        config.update(self.shared_config)
        with sandbox.quiet_io() as (out, err):
            rs = xdoctest.doctest_module(self.path, command='all', argv=[], style='google', verbose=verbose, config=config)
            streams = (sys.stdout is out, sys.stderr is err)
        if streams != (True, True):
            self.fail('stream_not_restored:module', 'after doctest_module sys.stdout / sys.stderr are the ones the run started under: {}'.format(streams))
        self.n_runs += len(self.templates)
        exp = [expected(t, i + 100, self.phase)[0] for i, t in enumerate(self.templates)]
        want = (exp.count('passed'), exp.count('failed'), exp.count('skipped'))
        got = (rs['n_passed'], rs['n_failed'], rs['n_skipped'])
        if got != want:
            failed = sorted(e.callname for e in rs['failed'])
            exp_failed = sorted('t{}'.format(i) for i, o in enumerate(exp) if o == 'failed')
            odd = sorted(set(failed) ^ set(exp_failed))
            t = self.templates[int(odd[0][1:])] if odd else '?'
            self.fail('module_run:' + t, 'doctest_module reports (passed, failed, skipped) = {} expected {}; failed {} expected {}'.format(
                got, want, failed, exp_failed))
        self.invariants('module')

    def invariants(self, tag):
        from xdoctest import directive
        mod = sys.modules.get(self.name)
        if mod is not None:
            getG = getattr(mod, 'getG', None)
            seen = None
            try:
                seen = getG() if getG is not None else '<getG is gone>'
            except Exception as ex:   # noqa
                seen = '<getG() raised {!r}>'.format(ex)
            if getattr(mod, 'G', None) != 'orig' or seen != 'orig':
                self.fail('module_global_rebound', 'after {}: module G = {!r}, getG() = {!r}'.format(tag, getattr(mod, 'G', None), seen))
        if directive.DEFAULT_RUNTIME_STATE != self.pristine_defaults:
            diff = {k: v for k, v in directive.DEFAULT_RUNTIME_STATE.items() if self.pristine_defaults.get(k) != v}
            directive.DEFAULT_RUNTIME_STATE.clear()
            directive.DEFAULT_RUNTIME_STATE.update(copy.deepcopy(self.pristine_defaults))
            self.fail('default_state_changed', 'after {}: DEFAULT_RUNTIME_STATE changed: {}'.format(tag, diff))
        if self.shared_state != self.shared_state0:
            got = dict(self.shared_state)
            self.shared_state.clear()
            self.shared_state.update(self.shared_state0)
            self.fail('shared_config_changed', 'after {}: the shared default option dict became {}'.format(tag, got))
        if sys.stdout is not self.stdout0:
            sys.stdout = self.stdout0
            self.fail('stdout_leak', 'after {}: sys.stdout was not restored'.format(tag))
        if list(warnings.filters) != self.filters0:
            warnings.filters[:] = self.filters0
            self.fail('warning_filter_leak', 'after {}: warning filters changed'.format(tag))

    def close(self):
        from xdoctest import directive
        for k, v in self.saved_env.items():
            if v is None:
                os.environ.pop(k, None)
            else:
                os.environ[k] = v
        sys.stdout = self.stdout0
        warnings.filters[:] = self.filters0
        directive.DEFAULT_RUNTIME_STATE.clear()
        directive.DEFAULT_RUNTIME_STATE.update(copy.deepcopy(self.pristine_defaults))
        sandbox.purge_modules([self.name])
        import shutil
        shutil.rmtree(self.dir, ignore_errors=True)


def check_case(case, ctx):
    """plain replay of a history (no Hypothesis)"""
    w = World(case['templates'], case.get('with_options', True))
    try:
        for op in case['history']:
            w.step(op)
    finally:
        w.close()


def solo_check(ctx):
    """the expectation table itself: every template, freshly collected, run alone, both phases and both on_error values"""
    for t in TEMPLATES:
        for phase in (1, 2):
            for on_error, opts in (('return', True), ('raise', True), ('return', False), ('raise', False)):
                w = World([t], opts)
                try:
                    w.step(['phase', phase])
                    try:
                        w.step(['fresh', 0, 0, on_error])
                    except Violation as v:
                        raise Violation('table:' + v.key, 'a solo run of a fresh doctest disagrees with the table: ' + v.msg, case=v.case)
                finally:
                    w.close()
                if ctx is not None:
                    ctx.count()


class IsolationMachine(RuleBasedStateMachine):
    ctx = None
    _last_violation = None

    def __init__(self):
        super().__init__()
        self.w = None
        self.labels = []

    @initialize(templates=st.lists(st.sampled_from(TEMPLATES), min_size=6, max_size=14), with_options=st.booleans())
    def setup(self, templates, with_options):
        # every pool holds at least one definer and one reader of X
        self.w = World(['define', 'read_other'] + templates, with_options)

    def _do(self, op):
        w = self.w
        try:
            w.step(op)
        except Violation as v:
            if self.ctx.is_suppressed(v.key):
                self.ctx.suppressed_hits[v.key] += 1
                return
            self._last_violation['v'] = v
            raise
        if op[0] in ('run', 'fresh'):
            self.labels.append((op[0], w.templates[op[1] % len(w.templates)]))
        else:
            self.labels.append((op[0], None))

    @rule(i=st.integers(0, 40), verbose=st.sampled_from([0, 0, 1, 2, 3]))
    def run(self, i, verbose):
        self._do(['run', i, verbose])

    @precondition(lambda self: self.w is not None and getattr(self.w, '_ran_set', None))
    @rule(data=st.data(), verbose=st.sampled_from([0, 0, 2]))
    def rerun(self, data, verbose):
        i = data.draw(st.sampled_from(sorted(self.w._ran_set)))
        self._do(['run', i, verbose])

    @rule(i=st.integers(0, 40), verbose=st.sampled_from([0, 1, 3]), on_error=st.sampled_from(['return', 'raise']))
    def fresh(self, i, verbose, on_error):
        self._do(['fresh', i, verbose, on_error])

    @rule(verbose=st.sampled_from([0, 1, 3]))
    def module(self, verbose):
        self._do(['module', verbose])

    @rule(p=st.sampled_from([1, 2]))
    def phase(self, p):
        self._do(['phase', p])

    @rule()
    def recollect(self):
        self._do(['recollect'])

    def teardown(self):
        if self.w is not None:
            ctx = self.ctx
            ctx.count(self.w.n_runs)
            runs = [x for x in self.labels if x[0] in ('run', 'fresh')]
            for kind, t in self.labels:
                ctx.tag('step:' + kind)
            ops = [op[0] for op in self.w.history]
            pooled = [op[1] % len(self.w.templates) for op in self.w.history if op[0] == 'run']
            repetition = len(pooled) != len(set(pooled))
            follows = any(a[1] in LEAVES_ON for a, b in zip(runs, runs[1:]))
            if repetition:
                ctx.tag('history:repetition')
            if len(runs) >= 4 and repetition and follows:
                ctx.nontriv((self.w.with_options, tuple(self.labels)), self.w.case())
            ctx.tag('options:' + ('shared_nonempty' if self.w.with_options else 'none'))
            self.w.close()
            self.w = None


def machines(ctx, n_examples, steps):
    engine.stateful_run(ctx, IsolationMachine, n_examples, steps)


def solo(ctx):
    try:
        solo_check(ctx)
    except Violation as v:
        ctx.fail(v.key, v.msg, v.case)
    ctx.exhaustive.append('every template x phase x on_error, run alone on a freshly collected object')


def fixed_histories(ctx):
    """the histories named in the property text, written out"""
    T = TEMPLATES
    hs = [
        (['define', 'read_other'], [['run', 0, 0], ['run', 1, 0], ['run', 0, 0], ['run', 1, 0]]),
        (['unset_then_set', 'define'], [['run', 1, 0], ['run', 0, 0], ['run', 0, 0], ['run', 0, 2]]),
        (['rebind_G', 'read_G'], [['run', 0, 0], ['run', 1, 0], ['module', 0], ['run', 1, 0]]),
        (['leave_skip', 'leave_requires', 'leave_ndiff', 'leave_ignore_want', 'leave_noellipsis', 'wrong_want', 'needs_ellipsis', 'define'],
         [['run', i, 0] for i in range(8)] + [['module', 0], ['module', 1]] + [['run', i, 0] for i in (5, 6, 7)]),
        (['phase_unmatched'], [['run', 0, 0], ['phase', 2], ['run', 0, 0], ['phase', 1], ['run', 0, 0], ['phase', 2], ['fresh', 0, 0, 'return']]),
        (['fails_late', 'define'], [['run', 0, 0], ['run', 0, 0], ['run', 1, 0], ['run', 0, 3]]),
        (['spawn_task', 'await_sleep', 'define'], [['run', 0, 0], ['run', 1, 0], ['run', 2, 0], ['fresh', 0, 0, 'raise'], ['fresh', 1, 1, 'raise'],
                                                   ['module', 0], ['run', 1, 0]]),
        (['filter_error', 'warn', 'replace_stdout', 'define'], [['run', 0, 0], ['run', 1, 0], ['run', 2, 0], ['run', 3, 0], ['module', 0]]),
        (T, [['module', 0], ['phase', 2], ['module', 1], ['phase', 1], ['module', 3]]),
    ]
    for templates, history in hs:
        for opts in (True, False):
            ctx.count()
            ctx.guard(check_case, {'templates': templates, 'with_options': opts, 'history': history})


def health(tot, tier):
    c = tot['classes']
    for need in ('step:run', 'step:fresh', 'step:module', 'step:phase', 'step:recollect', 'history:repetition'):
        if c.get(need, 0) < 1:
            return 'class {} was never generated'.format(need)
    return None


def selftest():
    for t in TEMPLATES:
        template_lines(t, 1)
        for p in (1, 2):
            assert expected(t, 1, p)[0] in ('passed', 'failed', 'skipped')
    assert expected('phase_unmatched', 1, 1)[0] == 'passed' and expected('phase_unmatched', 1, 2)[0] == 'failed'


def jobs(tier):
    quick = tier == 'quick'
    out = [('solo', 'solo', {}), ('fixed_histories', 'fixed_histories', {})]
    out += [('machines#%d' % s, 'machines', dict(n_examples=60 if quick else 1200, steps=30 if quick else 50)) for s in range(14)]
    return out
