"""
C01 — Doctest code runs exactly as written: each statement once, in order.

Generated programs (statement grammar G1) laid out as docstrings (layout engine
G2) are run by xdoctest and, de-prompted, by CPython itself; trace of executed
statements, captured stdout, final bindings and attribution of stdout must
agree.
"""
import contextlib
import io
import os
import re
import warnings

from vp import engine, sandbox
from vp.engine import HarnessError, Violation
from vp.gen import programs
from vp.gen.draw import composite
from vp.ref import pyexec

ID = 'C01'
TECHNIQUE = ('Hypothesis-generated programs x docstring layouts; differential against reference execution of the '
             'de-prompted program by CPython (trace, stdout, bindings, attribution)')
RULE = ("programs of 1-12 statement groups drawn from ~55 statement kinds, laid out with random prompt styles "
        "(>>> everywhere / >>> + ... / bare ... terminator / unprefixed string lines), indentation (spaces, tabs), "
        "wants (true outputs) and separators. Non-trivial: >= 3 groups, (>= 2 prompt styles or a multi-line "
        "statement), and >= 1 want or prose separator. Distinct = distinct docstring text.")
ASSUMPTIONS = [
    "CPython compile/exec of the de-prompted program is the ground truth",
    "where a want follows a value-bearing expression statement the REPL echo of that value may or may not be part "
    "of the recorded stdout (documented 'single' mode); both are accepted",
    "well-formed docstrings only: wants contain no blank line and never start with a prompt",
]


class Snap(dict):
    """global namespace that remembers its content when xdoctest clears it"""
    snap = None

    def clear(self):
        self.snap = dict(self)
        super().clear()


def selftest():
    from vp.gen.draw import D
    # the reference runs programs and sees order/multiplicity
    r = pyexec.run_program('T.append(1)\nfor i in range(2):\n    T.append((2, i))\nprint("x")\n')
    assert r['trace'] == [1, (2, 0), (2, 1)] and r['stdout'] == 'x\n'
    # every kind is a valid, non-raising program with exactly one T.append(k)
    for kind in programs.SIMPLE_KINDS:
        g = programs.make_group(5, kind)
        out, value, is_expr, exc = pyexec.exec_unit(programs.group_source(g), {'T': []})
        assert exc is None, (kind, exc)
        assert (is_expr and value is not None) == (kind in programs.VALUED), kind
    # a layout that drops a statement must be visible: compare traces of two different programs
    a = pyexec.run_program('T.append(1)\nT.append(2)\n')['trace']
    b = pyexec.run_program('T.append(1)\n')['trace']
    assert a != b


def expected_stdout_regex(groups):
    parts = []
    for g in groups:
        parts.append(re.escape(g['out']))
        if g.get('echo'):
            parts.append('(?:' + re.escape(g['echo']) + ')?')
    return re.compile(''.join(parts), re.DOTALL)


def run_doc(doc, trace, style='freeform'):
    from xdoctest import core
    with warnings.catch_warnings(record=True) as wl, contextlib.redirect_stdout(io.StringIO()):
        warnings.simplefilter('always')
        examples = list(core.parse_docstr_examples(doc, callname='c01', style=style))
    if len(examples) != 1:
        msgs = [str(w.message)[:300] for w in wl][:2]
        raise Violation('not_collected:{}'.format(len(examples)),
                        'docstring yields {} doctests instead of 1 (warnings: {})\n{}'.format(len(examples), msgs, doc))
    ex = examples[0]
    ex.mode = 'native'
    ex.global_namespace = Snap()
    ex.global_namespace['T'] = trace
    with contextlib.redirect_stdout(io.StringIO()):
        summary = ex.run(on_error='return', verbose=0)
    return ex, summary


MODULE_GLOBAL_NAMES = ['v', 'a', 'b', 'n', 'w', 'G', 'h']


def module_source(doc, n_groups, layout):
    """a module whose globals carry the very names the doctest binds (v1, a1, ...), with the docstring inside f()"""
    L = []
    for k in range(1, n_groups + 1):
        for nm in MODULE_GLOBAL_NAMES:
            L.append("{}{} = 'module value'".format(nm, k))
    L += ['', '', 'def f():', '    """', '    Summary line.', '']
    ind = '    '
    if layout == 'google':
        L.append('    Example:')
        ind = '        '
    for ln in doc.split('\n'):
        ln = ln.replace('\\', '\\\\').replace('"""', '\\"\\"\\"')     # non-raw literal: the value is the intended text
        L.append((ind + ln) if ln.strip() else '')
    L += ['    """', '    return 1', '']
    return '\n'.join(L) + '\n'


def run_in_module(case, trace):
    """the docstring as the doctest of a function in a module file, collected from disk"""
    from xdoctest import core
    layout = case.get('module_layout', 'freeform')
    src = module_source(case['doc'], len(case['groups']), layout)
    name = sandbox.unique_name('vpc01')
    with sandbox.scratch('c01') as d:
        path = os.path.join(d, name + '.py')
        with open(path, 'w') as f:
            f.write(src)
        try:
            with warnings.catch_warnings(record=True) as wl, contextlib.redirect_stdout(io.StringIO()):
                warnings.simplefilter('always')
                examples = list(core.parse_doctestables(path, style='google' if layout == 'google' else 'freeform',
                                                        analysis='static'))
            if len(examples) != 1:
                msgs = [str(w.message)[:300] for w in wl][:2]
                raise Violation('not_collected:{}'.format(len(examples)),
                                'module docstring yields {} doctests instead of 1 (warnings: {})\n{}'.format(len(examples), msgs, src))
            ex = examples[0]
            ex.mode = 'native'
            ex.global_namespace = Snap()
            ex.global_namespace['T'] = trace
            with contextlib.redirect_stdout(io.StringIO()):
                summary = ex.run(on_error='return', verbose=0)
        finally:
            sandbox.purge_modules([name])
    ns = {}
    exec(compile(src, '<module>', 'exec'), ns)
    return ex, summary, ns


def check_case(case, ctx):
    doc, prog, groups = case['doc'], case['prog'], case['groups']
    if case.get('via_module'):
        return check_module_case(case, ctx)
    ref = pyexec.run_program('\n'.join(prog) + '\n')
    if ref['exc'] is not None:
        raise HarnessError('reference program raised {!r}'.format(ref['exc']))
    if ''.join(g['out'] for g in groups) != ref['stdout']:
        raise HarnessError('per-group outputs do not add up to the program output')
    trace = []
    ex, summary = run_doc(doc, trace)
    if not summary['passed']:
        ei = summary.get('exc_info')
        what = 'skipped' if summary.get('skipped') else 'failed'
        name = type(ei[1]).__name__ if ei else 'none'
        raise Violation('summary:{}:{}'.format(what, name),
                        'doctest {} ({}: {}) although every want is the true output\n{}'.format(
                            what, name, str(ei[1])[:300] if ei else '', doc))
    if trace != ref['trace']:
        raise Violation('trace', 'executed statements {} differ from the plain program {}\n{}'.format(
            trace, ref['trace'], doc))
    got_out = ''.join(v for v in ex.logged_stdout.values() if v)
    if not expected_stdout_regex(groups).fullmatch(got_out):
        raise Violation('stdout', 'recorded stdout {!r} differs from the program output {!r}\n{}'.format(
            got_out, ref['stdout'], doc))
    snap = ex.global_namespace.snap
    if snap is None:
        raise Violation('namespace_not_cleared', 'global namespace was not cleared after the run')
    a = pyexec.bindings(snap)
    b = pyexec.bindings(ref['ns'])
    if a != b:
        diff = {k: (a.get(k), b.get(k)) for k in set(a) | set(b) if a.get(k) != b.get(k)}
        raise Violation('bindings', 'final bindings differ (xdoctest, reference): {}\n{}'.format(str(diff)[:500], doc))
    # attribution: a second doctest run right after records only its own output
    first_record = dict(ex.logged_stdout)
    tok = 'zz_second_{}'.format(len(prog))
    ex2, s2 = run_doc(">>> print('{0}')\n{0}\n>>> print('{0}b')\n".format(tok), [])
    out2 = ''.join(v for v in ex2.logged_stdout.values() if v)
    if not s2['passed'] or out2 != '{0}\n{0}b\n'.format(tok):
        raise Violation('attribution:second', 'second doctest recorded {!r}'.format(out2))
    if dict(ex.logged_stdout) != first_record:
        raise Violation('attribution:first_changed', 'stdout record of the first doctest changed after the second ran')


def check_module_case(case, ctx):
    doc, prog, groups = case['doc'], case['prog'], case['groups']
    trace = []
    ex, summary, ns0 = run_in_module(case, trace)
    ns0.pop('__builtins__', None)
    ref = pyexec.run_program('\n'.join(prog) + '\n', ns=dict(ns0))
    if ref['exc'] is not None:
        raise HarnessError('reference program raised {!r}'.format(ref['exc']))
    if not summary['passed']:
        ei = summary.get('exc_info')
        what = 'skipped' if summary.get('skipped') else 'failed'
        name = type(ei[1]).__name__ if ei else 'none'
        raise Violation('module:summary:{}:{}'.format(what, name),
                        'doctest collected from a module {} ({}: {}) although every want is the true output\n{}'.format(
                            what, name, str(ei[1])[:300] if ei else '', doc))
    if trace != ref['trace']:
        raise Violation('module:trace', 'executed statements {} differ from the plain program {}\n{}'.format(trace, ref['trace'], doc))
    got_out = ''.join(v for v in ex.logged_stdout.values() if v)
    if not expected_stdout_regex(groups).fullmatch(got_out):
        raise Violation('module:stdout', 'recorded stdout {!r} differs from the program output {!r}\n{}'.format(
            got_out, ref['stdout'], doc))
    snap = ex.global_namespace.snap
    if snap is None:
        raise Violation('namespace_not_cleared', 'global namespace was not cleared after the run')
    a = pyexec.bindings(snap)
    b = pyexec.bindings(ref['ns'])
    if a != b:
        diff = {k: (a.get(k), b.get(k)) for k in set(a) | set(b) if a.get(k) != b.get(k)}
        raise Violation('module:bindings', 'final bindings differ from running the program in the module namespace (xdoctest, reference): '
                        '{}\n{}'.format(str(diff)[:500], doc))


@composite
def case_strategy(D, max_groups):
    case = programs.gen_program(D, max_groups=max_groups)
    if D.chance(1, 4):
        case['via_module'] = True
        case['module_layout'] = D.choice(['freeform', 'google'])
    return case


def _check(case, ctx):
    ctx.count()
    groups = case['groups']
    feats = case['features']
    if case.get('via_module'):
        ctx.tag('via_module:' + case['module_layout'])
    for f in feats:
        if not f.startswith('kind:'):
            ctx.tag(f)
    kinds = [g['kind'] for g in groups]
    for label, ks in (('decorator', ('deco', 'deco2', 'classdeco')), ('unprefixed_string', ('tstr_unpref', 'tstr_col0', 'tstr_blank', 'tstr_col0_dq')),
                      ('await', ('await', 'asyncfor', 'asyncwith', 'valawait')), ('comment', ('comment', 'comment_in_br', 'comment_after')),
                      ('valued', tuple(programs.VALUED)), ('semicolon', ('semi', 'valsemi'))):
        if any(k in ks for k in kinds):
            ctx.tag('has:' + label)
    for i, g in enumerate(groups[1:], 1):
        if g['kind'] in ('deco', 'deco2', 'classdeco') and groups[i - 1]['want']:
            ctx.tag('has:decorator_after_want')
    styles = {g['style'] for g in groups}
    multi = any(g['nlines'] > 1 for g in groups)
    has_want = any(g['want'] for g in groups)
    has_prose = any(f in ('sep:prose', 'sep:dedent_prose', 'leading_prose') for f in feats)
    if len(groups) >= 3 and (len(styles) >= 2 or multi) and (has_want or has_prose):
        ctx.nontriv(case['doc'], {'doc': case['doc'], 'kinds': kinds})
    check_case(case, ctx)


def hyp_programs(ctx, n_examples, max_groups):
    engine.hyp_run(ctx, case_strategy(max_groups), _check, n_examples)


def health(tot, tier):
    c = tot['classes']
    n = max(1, tot['evaluations'])
    for need in ('has:decorator', 'has:unprefixed_string', 'has:await', 'has:comment', 'indent:tab', 'has_want'):
        if c.get(need, 0) < 0.01 * n:
            return 'class {} is below 1% of the generated cases'.format(need)
    return None


def jobs(tier):
    per, mg = (1500, 8) if tier == 'quick' else (20000, 12)
    return [('hyp_programs#%d' % s, 'hyp_programs', dict(n_examples=per, max_groups=mg)) for s in range(16)]
