"""
C14 — Malformed docstrings are contained: bad syntax never crashes collection.

(a) Hypothesis line grammar of prompt / code / text fragments; (b) mutations of
valid generated docstrings; (c) Atheris coverage-guided fuzzing of the same
grammar decoded from bytes (vp/fuzz/c14_target.py); plus the text embedded as
one docstring among valid ones in a module, collected in every style.
"""
import contextlib
import io
import json
import os
import signal
import subprocess
import sys
import warnings

from hypothesis import strategies as st

from vp import engine, sandbox
from vp.engine import HERE, Violation
from vp.gen import programs
from vp.gen.draw import composite

ID = 'C14'
DESIGN_REF = '6.14'
TECHNIQUE = ('Hypothesis grammar-based fuzzing of docstring text + mutation of valid docstrings + Atheris '
             'coverage-guided fuzzing (structured byte decoder); oracle = allowed-exception set, warnings, '
             'inventory of the neighbouring valid doctests, watchdog')
LEVEL_TEXT = ("Tens of thousands (thorough: millions incl. the fuzzer) of texts built from ~120 code fragments and ~40 text "
              "fragments (unbalanced brackets and quotes, backslashes, keywords without bodies, directive fragments, control "
              "characters) with random prompts and indentation, and single-edit mutations of valid docstrings, are given to "
              "DoctestParser.parse and parse_docstr_examples in all three styles; a sample is embedded in a module among "
              "valid docstrings whose doctests must still be collected and run to their by-construction verdicts. "
              "Robustness fuzzing: absence of crashes is only established for what was generated.")
LEVEL_ADDED = ("Docstrings that are broken by construction (one of 20 statements that are not Python for a grammar-level reason, in the layouts '>>> + ...', '>>> on every line' and single line, between sound examples) must raise the parse error; two fifths of the embedded cases drive collection with the imported module object instead of its path. A third of the broken-by-construction docstrings carry a flat tag line (body not indented under it): style auto is then held to the freeform rule (warning, no example).")
LEVEL_NOTE = ("Trusted: the allowed-exception rule (only DoctestParseError may leave parse; nothing may leave "
              "parse_docstr_examples). A case is called a hang only if it exceeds 20 s twice, the second time in a fresh "
              "process with a 120 s limit; otherwise 'slow, inconclusive'. Inputs are bounded at 40 lines x 200 columns.")
RULE = ("texts from the line grammar / mutated valid docstrings / fuzzer. Non-trivial: the text contains >= 1 prompt line "
        "and the parse either raised DoctestParseError or produced >= 1 DoctestPart. Distinct = distinct text.")
ASSUMPTIONS = [
    "RecursionError and MemoryError are outside the domain (inputs are bounded)",
    "a text for which parse raises DoctestParseError must give no example and >= 1 warning in freeform style",
]

CODE = ['x = 1', 'print(x)', 'x = (1,', '2)', "s = '''", "'''", 'def f():', '    return 1', 'if x:', '    pass', 'else:',
        'x = [', ']', 'f(', 'x = "a', "y = 'b", 'x = 1 \\', 'lambda: (', '@dec', 'class A:', 'return 5', 'await f()',
        'async def g():', 'for i in range(2):', '    print(i)', 'try:', 'except Exception:', '1 +', '3 = 5', 'print(', '))',
        'x = {', '}', '# comment', '# xdoctest: +SKIP', 'x = 1  # xdoctest: +SKIP', '# xdoctest: +REQUIRES(module:os',
        '# xdoctest: +REQUIRES(env:A==1)', '# xdoctest: bogus', '# doctest: +ELLIPSIS, +FOO',
        'x = 1 # xdoctest: +REQUIRES(--flag))', '', ' ', '\x0c', 'x\x00y', 'é = 1', '\tx = 1', '"""', 'f"{x!r}"', 'f"{',
        'x = 1;', ';', 'print(x) ; y', '0x', '1_', 'a.b.c(', '*a, b = 1, 2', 'x: int = 1', 'global x', 'del x', 'import os',
        'from os import *', 'yield 1', 'break', 'continue', 'match x:', '    case 1: pass', 'with a as b: pass', 'print("\\',
        "b'\\x'", 'x = 1 if', '->', '...', 'Ellipsis', 'x = 1  # xdoctest: +REQUIRES(env:A:B)', '# xdoc: +', '# xdoctest: -',
        '# xdoctest: +SKIP(', 'f(1, # xdoctest: +SKIP', ')  # doctest: +SKIP', 'r"""', "rb'''", 'x = """a', 'b"""', "''' '''",
        'while True:', 'elif y:', 'finally:', 'nonlocal q', 'class B(', 'A):', 'x = [i for i in', 'range(3)]', 'lambda:',
        'def', 'async', 'import', 'from . import x', 'print(x)  #', '#', '# xdoctest: +REQUIRES(PY2, module:notthere)',
        "'\\", '\\', '\\\\', 'x = (', ')', '(((((', ']]]', '{[(', ')]}', 'if x: return', 'x = 1 # doctest: +NORMALIZE_WHITESPACE',
        "print('>>> nested')", "s = '>>> '", "print('...')", '0b2', '1e', '1.e+', "u'x'", 'x = 1\r', 'x = 1\ry = 2', 'v = (1,\r 2)', 'x \x0b= 1', '﻿x = 1',
        'T.append(1)', 'T.append(2)', 'assert False', 'raise ValueError("v")', '1/0']
TEXT = ['some prose', 'Example:', 'Examples:', 'Args:', '    a (int): desc', 'Returns:', 'Doctest:', 'Script:', 'Benchmark:',
        'DisableDoctest:', '', '', '1', '[1, 2]', 'Traceback (most recent call last):', '    ...', 'ValueError: x',
        '<BLANKLINE>', '...', 'Note::', 'Example::', 'Example :', ' Example:', 'Todo', '\x0c', '\r', 'carriage\rreturn inside a line', 'text >>> inline',
        '>>>nospace', '....', '... x', '>> x', '>>>> x', 'Example: trailing', 'Args', 'Returns: int', 'example:', 'EXAMPLE:',
        'Yields:', 'Raises:', '    ValueError: if bad', 'Kwargs:', 'CommandLine:', '    python -m mod', 'Ignore:', 'SeeAlso:']
INDENTS = ['', '', '', '    ', '    ', '  ', '        ', ' ', '\t', '            ', '\x0c', '      ']
PREFIXES = ['>>> ', '>>> ', '>>> ', '... ', '... ', '>>>', '...', '', '>>>  ', '>>>>', '.... ']


@composite
def grammar_text(D, max_lines=40):
    base = D.choice(['', '', '    ', '        '])
    lines = []
    for _ in range(D.int(1, max_lines if D.chance(1, 8) else 14)):
        ind = base + D.choice(INDENTS)
        if D.chance(1, 12):
            ind = ind[:max(0, len(ind) - 4)]
        k = D.int(0, 9)
        if k <= 5:
            ln = ind + D.choice(PREFIXES) + D.choice(CODE)
        elif k == 6:
            ln = ind + D.choice(CODE)
        elif k == 7:
            ln = ind + D.choice(['>>>', '...', '>>> ', '... '])
        else:
            ln = ind + D.choice(TEXT)
        lines.append(ln[:200])
    return '\n'.join(lines) + D.choice(['', '\n', '\n    ', '\n\n'])


@composite
def mutated_valid(D):
    c = programs.gen_program(D, max_groups=5)
    lines = c['doc'].split('\n')
    for _ in range(D.int(1, 3)):
        if not lines:
            break
        op = D.choice(['delete', 'dup', 'swap', 'delchar', 'indent', 'dedent', 'unprompt', 'truncate'])
        i = D.int(0, len(lines) - 1)
        if op == 'delete':
            del lines[i]
        elif op == 'dup':
            lines.insert(i, lines[i])
        elif op == 'swap' and len(lines) > 1:
            j = D.int(0, len(lines) - 1)
            lines[i], lines[j] = lines[j], lines[i]
        elif op == 'delchar':
            pos = [p for p, ch in enumerate(lines[i]) if ch in '()[]{}\'"\\:,']
            if pos:
                p = D.choice(pos)
                lines[i] = lines[i][:p] + lines[i][p + 1:]
        elif op == 'indent':
            lines[i] = D.choice([' ', '  ', '    ', '\t']) + lines[i]
        elif op == 'dedent':
            lines[i] = lines[i][D.int(1, 4):]
        elif op == 'unprompt':
            lines[i] = lines[i].replace('>>> ', '', 1).replace('... ', '', 1)
        elif op == 'truncate':
            lines = lines[:i + 1]
            lines[i] = lines[i][:D.int(0, len(lines[i]))]
    return '\n'.join(lines)


# statements that are not Python for a reason the tokenizer does not see (brackets and quotes are balanced): (first line, block lines)
BROKEN = [
    ('for i in range(3)', ['    print(i)']), ('if x = 1:', ['    pass']), ('def f(x)', ['    return x']), ('class A', ['    pass']),
    ('while True print(1)', ['    pass']), ('try:', ['    pass']), ('with open(f) as', ['    pass']), ('x = 1 +', ['    * 2']),
    ('return return', ['    1']), ('import', ['    os']), ('for in x:', ['    pass']), ('else:', ['    pass']), ('x = = 2', []),
    ('1 +', []), ('def (a):', ['    pass', '    return a']), ('lambda x: for', ['    x']), ('elif x:', ['    y = 1', '    z = 2']),
    ('x y z', []), ('a = 1 b = 2', []),
]


@composite
def broken_doc(D):
    """a docstring with broken doctest syntax by construction: sound examples around one statement that is not Python,
    written in one of the layouts ('classic': one >>> line and ... lines; 'ps1': every line has >>>; 'single')"""
    ind = D.choice(['', '    ', '        '])
    good = [['>>> a = 1', '>>> print(a)', '1'], [">>> print('ok')", 'ok'], ['>>> for k in range(2):', '...     print(k)', '0', '1'], ['>>> b = 2']]
    first, block = D.choice(BROKEN)
    layout = D.choice(['classic', 'classic', 'ps1', 'single'])
    if layout == 'single' or not block:
        bad = ['>>> ' + first] if not block or D.bool() else ['>>> ' + first + ' ' + block[0].strip()]
        # (joining the block onto the line keeps it broken: every entry is broken in its first line already)
    elif layout == 'classic':
        bad = ['>>> ' + first] + ['... ' + b for b in block]
    else:
        bad = ['>>> ' + first] + ['>>> ' + b for b in block]
    if not is_broken_python('\n'.join(b[4:] for b in bad) + '\n'):
        bad = ['>>> ' + first]
    code = '\n'.join(b[4:] for b in bad) + '\n'
    lines = []
    if D.bool():
        lines += ['Some prose first.', '']
    # a line that reads like a google tag but whose "body" is not indented under it is no google block: style auto has to
    # treat the docstring like freeform does
    flat_header = D.chance(1, 3)
    if flat_header:
        lines += [D.choice(['Example:', 'Examples:', 'Doctest:'])]
    for _ in range(D.int(0, 2)):
        lines += D.choice(good) + ([''] if D.bool() else [])
    lines += bad
    if D.bool():
        lines += D.choice([['1'], ['something'], ['']])
    for _ in range(D.int(0, 2)):
        lines += D.choice(good)
    text = '\n'.join(ind + ln if ln else ln for ln in lines) + D.choice(['', '\n'])
    return {'text': text, 'layout': layout, 'bad': '\n'.join(bad), 'code': code, 'flat_header': flat_header}


def is_broken_python(code):
    for mode in ('exec', 'single', 'eval'):
        try:
            compile(code, '<c14>', mode)
            return False
        except SyntaxError:
            continue
        except Exception:   # noqa
            return False
    return True


class _Timeout(BaseException):   # not an Exception: the code under test wraps every Exception into DoctestParseError
    pass


def _on_alarm(signum, frame):
    raise _Timeout()


def has_prompt(text):
    return any(ln.strip().startswith('>>>') for ln in text.split('\n'))


def oracle(text, styles=('freeform', 'google', 'auto'), must_error=None, auto_like_freeform=False):
    """Raises Violation; returns ('error' | 'parts' | 'noparts').  must_error: the statement (by construction not Python)
    that makes this text one with broken doctest syntax"""
    from xdoctest import core, exceptions, parser
    outcome = None
    try:
        with warnings.catch_warnings(), contextlib.redirect_stdout(io.StringIO()):
            warnings.simplefilter('ignore')
            parts = parser.DoctestParser().parse(text)
        if not isinstance(parts, list):
            raise Violation('parse:returns_non_list', 'parse returned {!r}'.format(type(parts)))
        outcome = 'parts' if any(not isinstance(p, str) for p in parts) else 'noparts'
        for p in parts:
            if not isinstance(p, str) and not p.exec_lines:
                raise Violation('parse:empty_part', 'a part without executable lines was returned for {!r}'.format(text))
    except exceptions.DoctestParseError:
        outcome = 'error'
    except (Violation, _Timeout):
        raise
    except RecursionError:
        return 'recursion'
    except BaseException as ex:  # noqa
        v = engine.classify_crash(ex)
        key = 'parse:escape:' + type(ex).__name__ + ':' + (v.key.split(':', 2)[-1] if v else '?')
        raise Violation(key, 'DoctestParser.parse let {} escape: {!r}\ntext={!r}'.format(type(ex).__name__, str(ex)[:200], text),
                        detail=v.detail if v else None)
    if must_error is not None and outcome not in ('error', None):
        raise Violation('parse:broken_accepted', 'the text holds a statement that is not Python ({!r}) but parse() returned parts instead of raising '
                        'its parse error\ntext={!r}'.format(must_error, text))
    for style in styles:
        try:
            with warnings.catch_warnings(record=True) as wl, contextlib.redirect_stdout(io.StringIO()):
                warnings.simplefilter('always')
                exs = list(core.parse_docstr_examples(text, callname='f', style=style))
        except _Timeout:
            raise
        except RecursionError:
            return 'recursion'
        except BaseException as ex:  # noqa
            v = engine.classify_crash(ex)
            key = 'examples:escape:{}:{}'.format(type(ex).__name__, (v.key.split(':', 2)[-1] if v else '?'))
            raise Violation(key, 'parse_docstr_examples(style={!r}) raised {}: {!r}\ntext={!r}'.format(
                style, type(ex).__name__, str(ex)[:200], text), detail=v.detail if v else None)
        if (style == 'freeform' or (style == 'auto' and auto_like_freeform)) and outcome == 'error':
            if exs:
                raise Violation('examples:yield_after_parse_error',
                                'the text does not parse but {} example(s) were produced\ntext={!r}'.format(len(exs), text))
            if not wl:
                raise Violation('examples:no_warning', 'the text does not parse but no warning was emitted\ntext={!r}'.format(text))
    return outcome


def guarded_oracle(text, ctx=None, must_error=None, auto_like_freeform=False):
    """oracle with the watchdog of DESIGN 6.14 (4)"""
    old = signal.signal(signal.SIGALRM, _on_alarm)
    signal.alarm(20)
    try:
        return oracle(text, must_error=must_error, auto_like_freeform=auto_like_freeform)
    except _Timeout:
        if ctx is not None:
            ctx.notes['slow_cases'] += 1
        if _hangs_in_fresh_process(text):
            v = Violation('hang', 'parsing does not finish within 120 s in a fresh process\ntext={!r}'.format(text))
            if ctx is not None and ctx.jobname.startswith('hyp'):
                raise engine.Abort(v, {'text': text, 'via': 'watchdog'})
            raise v
        if ctx is not None:
            ctx.notes['slow_inconclusive'] += 1
        return 'slow'
    finally:
        signal.alarm(0)
        signal.signal(signal.SIGALRM, old)


def _hangs_in_fresh_process(text):
    with sandbox.scratch('c14hang') as d:
        path = os.path.join(d, 'text.json')
        with open(path, 'w') as f:
            json.dump(text, f)
        code = ('import json,sys,warnings,io,contextlib\n'
                'from xdoctest import core\n'
                'text=json.load(open(sys.argv[1]))\n'
                'warnings.simplefilter("ignore")\n'
                'with contextlib.redirect_stdout(io.StringIO()):\n'
                '    for s in ("freeform","google","auto"):\n'
                '        try: list(core.parse_docstr_examples(text, style=s))\n'
                '        except Exception: pass\n')
        try:
            subprocess.run(['/venv/bin/python', '-c', code, path], env=sandbox.clean_env(), cwd=d, timeout=120,
                           stdout=subprocess.DEVNULL, stderr=subprocess.DEVNULL)
            return False
        except subprocess.TimeoutExpired:
            return True


def check_case(case, ctx):
    text = case['text']
    if case.get('embedded'):
        # the embedded form gets the same watchdog (collection of the whole module may hang on the doubtful docstring)
        old = signal.signal(signal.SIGALRM, _on_alarm)
        signal.alarm(30)
        try:
            return check_embedded(text, case.get('style', 'auto'))
        except _Timeout:
            if ctx is not None:
                ctx.notes['slow_cases'] += 1
            if _hangs_in_fresh_process(text):
                v = Violation('hang', 'collecting a module that holds this docstring does not finish (120 s in a fresh process)\ntext={!r}'.format(text))
                if ctx is not None and ctx.jobname.startswith('hyp'):
                    raise engine.Abort(v, {'text': text, 'via': 'watchdog'})
                raise v
            if ctx is not None:
                ctx.notes['slow_inconclusive'] += 1
            return 'slow'
        finally:
            signal.alarm(0)
            signal.signal(signal.SIGALRM, old)
    return guarded_oracle(text, ctx, must_error=case.get('bad'), auto_like_freeform=bool(case.get('flat_header')))


# ---------------------------------------------------------------------------
# embedded form

VALID = [
    ('good_a', 'passed', ["print('a1')", 'a1']),
    ('good_b', 'passed', ['x = 2', 'print(x + 1)', '3']),
    ('failing_c', 'failed', ["print('c')", 'not c']),
    ('good_d', 'passed', ['for i in range(2):', '    print(i)', '0', '1']),
]


def module_source(text, raw=False, decorated=False):
    """raw: the doubtful text is written as it is between triple quotes (control characters such as a lone carriage
    return or a form feed then sit in the file itself); decorated: the valid functions after it carry a decorator"""
    lines = ['"""module with one docstring of doubtful syntax"""', '', 'import functools', 'T = []', '']
    for i, (name, verdict, body) in enumerate(VALID):
        if i == 2:
            if raw and '"""' not in text and '\\' not in text and not text.endswith('"'):
                lines += ['def doubtful():', '    """' + text + '"""', '    return 1', '', '']
            else:
                lines += ['def doubtful():', '    ' + repr(text), '    return 1', '', '']
        if decorated and i >= 2:
            lines += ['@functools.lru_cache(maxsize=None)']
        lines += ['def {}():'.format(name), '    """', '    Summary of {}.'.format(name), '', '    Example:']
        for ln in body:
            is_src = not (ln[0].isdigit() or ln in ('a1', 'not c'))
            if is_src:
                pre = '... ' if ln.startswith('    ') else '>>> '
                lines.append('        ' + pre + ln)
            else:
                lines.append('        ' + ln)
        lines += ['    """', '    return 1', '', '']
    return '\n'.join(lines)


def check_embedded(text, style):
    from xdoctest import core
    name = sandbox.unique_name('vpc14')
    via_object = len(text) % 5 < 2
    # (a live module is analysed dynamically; functools.lru_cache objects are not functions there, so no decorators then)
    src = module_source(text, raw=len(text) % 2 == 0, decorated=len(text) % 3 != 0 and not via_object)
    try:
        compile(src, name, 'exec')
    except (SyntaxError, ValueError):
        return 'unembeddable'
    with sandbox.scratch('c14') as d:
        path = os.path.join(d, name + '.py')
        with open(path, 'w', encoding='utf8', newline='') as f:      # no newline translation: a lone CR stays a lone CR
            f.write(src)
        try:
            try:
                with sandbox.quiet():
                    if via_object:
                        # collection driven by the imported module object instead of its path
                        import importlib.util
                        spec = importlib.util.spec_from_file_location(name, path)
                        modobj = importlib.util.module_from_spec(spec)
                        sys.modules[name] = modobj
                        spec.loader.exec_module(modobj)
                        exs = list(core.parse_doctestables(modobj, style=style, analysis='auto'))
                    else:
                        exs = list(core.parse_doctestables(path, style=style, analysis='static'))
            except RecursionError:
                return 'recursion'
            except BaseException as ex:  # noqa
                v = engine.classify_crash(ex)
                raise Violation('embedded:collection_raises:{}:{}'.format(type(ex).__name__, (v.key.split(':', 2)[-1] if v else '?')),
                                'collecting a module with one malformed docstring raised {}: {!r}\ndocstring={!r}'.format(
                                    type(ex).__name__, str(ex)[:200], text), detail=v.detail if v else None)
            by_name = {}
            for e in exs:
                by_name.setdefault(e.callname, []).append(e)
            for fname, verdict, _ in VALID:
                got = by_name.get(fname, [])
                if len(got) != 1:
                    raise Violation('embedded:neighbour_lost',
                                    'the valid docstring of {}() yields {} doctests (style {}) next to the malformed docstring {!r}'.format(
                                        fname, len(got), style, text))
                with sandbox.quiet():
                    s = got[0].run(verbose=0, on_error='return')
                res = 'failed' if s['failed'] else ('passed' if s['passed'] else 'skipped')
                if res != verdict:
                    raise Violation('embedded:neighbour_verdict',
                                    '{}() is {} by construction but ran to {} next to the malformed docstring {!r}'.format(
                                        fname, verdict, res, text))
        finally:
            sandbox.purge_modules(name)
    return 'embedded_ok'


# ---------------------------------------------------------------------------


def _check(case, ctx):
    ctx.count()
    text = case['text']
    res = check_case(case, ctx)
    ctx.tag('{}:{}'.format(case.get('via', '?'), res))
    if res in ('error', 'parts') and has_prompt(text):
        ctx.nontriv(text, {'text': text, 'outcome': res})
    if res == 'embedded_ok' and has_prompt(text):
        ctx.nontriv(('emb', text, case.get('style')))


def hyp_grammar(ctx, n_examples):
    engine.hyp_run(ctx, grammar_text().map(lambda t: {'text': t, 'via': 'grammar'}), _check, n_examples)


def hyp_mutated(ctx, n_examples):
    engine.hyp_run(ctx, mutated_valid().map(lambda t: {'text': t, 'via': 'mutated'}), _check, n_examples)


def hyp_broken(ctx, n_examples):
    engine.hyp_run(ctx, broken_doc().map(lambda c: dict(c, via='broken:' + c['layout'])), _check, n_examples)


def hyp_embedded(ctx, n_examples):
    strat = st.tuples(st.one_of(grammar_text(14), mutated_valid()), st.sampled_from(['auto', 'google', 'freeform'])).map(
        lambda t: {'text': t[0], 'style': t[1], 'embedded': True, 'via': 'embedded'})
    engine.hyp_run(ctx, strat, _check, n_examples)


def atheris_job(ctx, runs, corpus):
    """coverage-guided campaign in a subprocess; the oracle runs inside the target"""
    deps = os.path.join(HERE, '.deps')
    env = sandbox.clean_env()
    env['PYTHONPATH'] = env['PYTHONPATH'] + os.pathsep + HERE + os.pathsep + deps
    probe = subprocess.run(['/venv/bin/python', '-c', 'import atheris'], env=env, stdout=subprocess.DEVNULL, stderr=subprocess.DEVNULL)
    if probe.returncode != 0:
        ctx.notes['atheris_unavailable'] += 1
        return
    with sandbox.scratch('c14fuzz') as d:
        cdir = os.path.join(d, 'corpus')
        os.makedirs(cdir)
        if corpus == 'repo':
            _seed_corpus(cdir)
        out = os.path.join(d, 'out')
        os.makedirs(out)
        env['VP_ATHERIS_OUT'] = out
        seed = engine.derived_seed(ctx) % (2 ** 31 - 1) or 1
        cmd = ['/venv/bin/python', os.path.join(HERE, 'vp', 'fuzz', 'c14_target.py'), '-runs={}'.format(runs),
               '-seed={}'.format(seed), '-max_len=400', '-timeout=60', '-artifact_prefix=' + out + '/', '-verbosity=0',
               '-print_final_stats=1', cdir]
        p = subprocess.run(cmd, env=env, cwd=d, stdout=subprocess.PIPE, stderr=subprocess.STDOUT, text=True, timeout=3600)
        stats_path = os.path.join(out, 'stats.json')
        n_exec = 0
        if os.path.exists(stats_path):
            with open(stats_path) as f:
                stats = json.load(f)
            n_exec = stats.get('executions', 0)
            ctx.count(n_exec)
            ctx.classes['atheris:{}:executions'.format(corpus)] += n_exec
            ctx.classes['atheris:{}:parse_error'.format(corpus)] += stats.get('error', 0)
            ctx.classes['atheris:{}:parts'.format(corpus)] += stats.get('parts', 0)
            ctx.nontriv_bulk(0)
            for t in stats.get('samples', [])[:2]:
                ctx.nontriv(t, {'text': t, 'via': 'atheris'})
            for t in stats.get('nontrivial_hashes', []):
                ctx.nontrivial.add(t)
        vpath = os.path.join(out, 'violation.json')
        if os.path.exists(vpath):
            with open(vpath) as f:
                v = json.load(f)
            ctx.fail(v['key'], v['msg'], {'text': v['text'], 'via': 'atheris'})
        elif p.returncode != 0:
            tail = p.stdout[-1500:]
            if 'timeout' in tail.lower() and 'libFuzzer' in tail:
                ctx.notes['atheris_slow_unit'] += 1
            else:
                raise engine.HarnessError('atheris target failed without a violation file:\n' + tail)


def _seed_corpus(cdir):
    """a few valid inputs: byte strings that decode to small well-formed docstrings"""
    seeds = [bytes([0, 0, 0, 0, 1, 0, 1]), bytes([1, 2, 0, 2, 1, 3, 4, 0, 1, 2, 0]), bytes(range(40))]
    for i, s in enumerate(seeds):
        with open(os.path.join(cdir, 'seed{}'.format(i)), 'wb') as f:
            f.write(s)


def selftest():
    # harness pieces only: the outcome for the code under test is decided by the jobs, not here
    compile(module_source('>>> x = (\n\x00'), 'm', 'exec')
    assert has_prompt('  >>> x') and not has_prompt('>> x')
    for first, block in BROKEN:
        assert is_broken_python(first + '\n'), first
        assert is_broken_python('\n'.join([first] + block) + '\n'), first
    assert not is_broken_python('x = 1\n') and not is_broken_python('for i in x:\n    pass\n')
    try:
        assert oracle('just text\n', styles=()) in ('noparts', 'parts', 'error')
    except Violation:
        pass


def jobs(tier):
    q = tier == 'quick'
    out = [('hyp_grammar#%d' % s, 'hyp_grammar', dict(n_examples=1500 if q else 60000)) for s in range(8)]
    out += [('hyp_mutated#%d' % s, 'hyp_mutated', dict(n_examples=800 if q else 25000)) for s in range(4)]
    out += [('hyp_embedded#%d' % s, 'hyp_embedded', dict(n_examples=500 if q else 6000)) for s in range(4)]
    out += [('hyp_broken#%d' % s, 'hyp_broken', dict(n_examples=600 if q else 12000)) for s in range(2)]
    out += [('atheris_empty#0', 'atheris_job', dict(runs=15000 if q else 250000, corpus='empty')),
            ('atheris_repo#0', 'atheris_job', dict(runs=15000 if q else 250000, corpus='repo'))]
    if not q:
        out += [('atheris_empty#%d' % s, 'atheris_job', dict(runs=250000, corpus='empty')) for s in range(1, 4)]
        out += [('atheris_repo#%d' % s, 'atheris_job', dict(runs=250000, corpus='repo')) for s in range(1, 4)]
    return out
