"""
Driver shared by every property check.

A property module (vp/props/cNN.py) exposes

    ID, RULE, ASSUMPTIONS, TECHNIQUE
    selftest()                      oracle self-test, raises on failure (-> exit 2)
    jobs(tier) -> [Job, ...]        units of work, run in a pool of worker processes
    check_case(case, ctx)           plain re-execution of one JSON case (used by the
                                    Hypothesis wrapper, by the corpus and by --replay)

A Job is (name, funcname, kwargs); the function ``funcname(ctx, **kwargs)`` of the
property module runs inside a worker with its own ``Ctx``.  It either enumerates
a finite domain itself (calling ``ctx.guard``) or calls ``hyp_run`` to let
Hypothesis drive ``check_case``.

Nothing in here calls an RNG: every random choice is made by Hypothesis under
``@seed(derived)``; enumerations do not depend on the seed.
"""
import hashlib
import importlib
import json
import multiprocessing
import os
import sys
import time
import traceback
from collections import Counter

HERE = os.path.dirname(os.path.dirname(os.path.abspath(__file__)))
REPO = os.environ.get('VP_REPO', '/repo')
NPROC = int(os.environ.get('VP_NPROC', '16'))
MAX_SAMPLES = 6
MAX_SAMPLE_CHARS = 1800


class Violation(Exception):
    """The code under test breaks the property on this case."""

    def __init__(self, key, msg, detail=None, case=None):
        super().__init__('{}: {}'.format(key, msg))
        self.key = key
        self.msg = msg
        self.detail = detail
        self.case = case      # set by stateful machines: the history that failed


class Abort(BaseException):
    """Stops a Hypothesis run at once, without shrinking (used for confirmed hangs, where every
    further execution of the case would cost minutes).  Carries the Violation and the case."""

    def __init__(self, violation, case):
        super().__init__(str(violation))
        self.violation = violation
        self.case = case


class HarnessError(Exception):
    """The machinery itself is broken (never reported as a violation)."""


def canon(obj):
    return json.dumps(obj, sort_keys=True, default=repr, ensure_ascii=True)


def h64(obj):
    if not isinstance(obj, (str, bytes)):
        obj = canon(obj)
    if isinstance(obj, str):
        obj = obj.encode('utf8', 'surrogatepass')
    return hashlib.blake2b(obj, digest_size=8).hexdigest()


def _clip(obj, limit=MAX_SAMPLE_CHARS):
    """Make a sample small enough to be written into an evidence file."""
    if isinstance(obj, str):
        return obj if len(obj) <= limit else obj[:limit] + '…[+{} chars]'.format(len(obj) - limit)
    if isinstance(obj, dict):
        return {str(k): _clip(v, limit) for k, v in list(obj.items())[:40]}
    if isinstance(obj, (list, tuple)):
        out = [_clip(v, limit) for v in list(obj)[:30]]
        if len(obj) > 30:
            out.append('…[+{} items]'.format(len(obj) - 30))
        return out
    if isinstance(obj, (int, float, bool)) or obj is None:
        return obj
    return _clip(repr(obj), limit)


class Ctx(object):
    """Per-worker bookkeeping: counters, samples, suppressed keys, failures."""

    def __init__(self, prop_id, tier, seed, jobname='', jobindex=0, suppressed=()):
        self.prop_id = prop_id
        self.tier = tier
        self.seed = seed
        self.jobname = jobname
        self.jobindex = jobindex
        self.suppressed = list(suppressed)   # glob patterns of known / excluded keys
        self.evaluations = 0
        self.nontrivial = set()              # hashes of distinct non-trivial cases
        self.nontrivial_extra = 0            # distinct by construction (enumerations)
        self.classes = Counter()
        self.samples = []
        self.suppressed_hits = Counter()
        self.failures = []                   # dicts: key, msg, case, detail
        self.notes = Counter()
        self.exhaustive = []                 # descriptions of fully enumerated sub-domains
        self._seen_fail_keys = set()

    # --- evidence ------------------------------------------------------
    def count(self, n=1):
        self.evaluations += n

    def tag(self, *labels):
        for lab in labels:
            self.classes[lab] += 1

    def nontriv(self, ident, sample=None):
        """Record a non-trivial case; ``ident`` identifies it for distinctness."""
        hh = h64(ident)
        if hh not in self.nontrivial:
            self.nontrivial.add(hh)
            if sample is not None and len(self.samples) < MAX_SAMPLES:
                self.samples.append(_clip(sample))

    def nontriv_bulk(self, n, sample=None):
        """n distinct non-trivial cases, distinct by construction (enumeration)."""
        self.nontrivial_extra += n
        if sample is not None and len(self.samples) < MAX_SAMPLES:
            self.samples.append(_clip(sample))

    def sample(self, sample):
        if len(self.samples) < MAX_SAMPLES:
            self.samples.append(_clip(sample))

    # --- failures --------------------------------------------------------
    def is_suppressed(self, key):
        from fnmatch import fnmatchcase
        return any(fnmatchcase(key, pat) for pat in self.suppressed)

    def fail(self, key, msg, case, detail=None):
        """Record a violation found by an enumeration (first case per key)."""
        if self.is_suppressed(key):
            self.suppressed_hits[key] += 1
            return
        self.notes['violating_cases'] += 1
        if key in self._seen_fail_keys:
            return
        self._seen_fail_keys.add(key)
        self.failures.append({'key': key, 'msg': msg, 'case': case, 'detail': detail})

    def guard(self, check, case):
        """Run check(case, ctx) inside an enumeration; record instead of raising."""
        try:
            check(case, self)
        except Violation as v:
            self.fail(v.key, v.msg, case, v.detail)
        except Exception as ex:   # noqa
            v = classify_crash(ex)
            if v is None:
                raise
            self.fail(v.key, v.msg, case, v.detail)

    def export(self):
        return {
            'jobname': self.jobname,
            'evaluations': self.evaluations,
            'nontrivial': self.nontrivial,
            'nontrivial_extra': self.nontrivial_extra,
            'classes': self.classes,
            'samples': self.samples,
            'suppressed_hits': self.suppressed_hits,
            'failures': self.failures,
            'notes': self.notes,
            'exhaustive': self.exhaustive,
        }


def classify_crash(ex):
    """
    An exception that escapes from *inside the code under test* on an input
    of the property's domain is a violation (key crash:<type>:<file>:<func>);
    an exception raised by the harness itself is a harness error (None).
    """
    tb = traceback.extract_tb(ex.__traceback__)
    inner_pkg = None
    for fr in tb:
        fn = fr.filename.replace('\\', '/')
        if '/xdoctest/' in fn and '/verif/' not in fn:
            inner_pkg = fr
        elif fn.startswith(HERE + '/'):
            inner_pkg = None   # control came back to the harness (e.g. a callback)
    if inner_pkg is None:
        # innermost frames are not in xdoctest: look whether xdoctest is on the stack at all
        last_x = None
        for i, fr in enumerate(tb):
            fn = fr.filename.replace('\\', '/')
            if '/xdoctest/' in fn and '/verif/' not in fn:
                last_x = i
        if last_x is None:
            return None
        # xdoctest frame exists but a later harness frame too -> harness callback raised
        later_harness = any(f.filename.startswith(HERE + '/') for f in tb[last_x + 1:])
        if later_harness:
            return None
        inner_pkg = tb[last_x]
    key = 'crash:{}:{}:{}'.format(type(ex).__name__, os.path.basename(inner_pkg.filename), inner_pkg.name)
    try:
        text = str(ex)[:300]
    except Exception:   # noqa  (exceptions whose __str__ raises are generated on purpose)
        text = '<unprintable>'
    msg = 'code under test raised {}: {}'.format(type(ex).__name__, text)
    try:
        detail = ''.join(traceback.format_exception(type(ex), ex, ex.__traceback__))[-3000:]
    except Exception:   # noqa
        detail = ''.join(traceback.format_tb(ex.__traceback__))[-3000:]
    return Violation(key, msg, detail)


def derived_seed(ctx, salt=0):
    return (int(ctx.seed) * 1000 + int(ctx.jobindex)) * 10 + int(salt)


def hyp_run(ctx, strategy, check, max_examples, salt=0, shrink=True, step_count=None):
    """
    Let Hypothesis generate cases for ``check(case, ctx)``.  A Violation whose
    key is suppressed (known finding, or already reported in an earlier round)
    is counted and the search continues; the first other violation is shrunk
    and recorded with its minimal case.
    """
    import hypothesis
    from hypothesis import HealthCheck, Phase, given, settings
    last = {}

    phases = [Phase.explicit, Phase.generate]
    if shrink:
        phases.append(Phase.shrink)

    @hypothesis.seed(derived_seed(ctx, salt))
    @settings(max_examples=max_examples, database=None, deadline=None,
              report_multiple_bugs=False, derandomize=False, print_blob=False,
              phases=phases,
              suppress_health_check=[HealthCheck.too_slow, HealthCheck.data_too_large,
                                     HealthCheck.filter_too_much, HealthCheck.large_base_example])
    @given(strategy)
    def _t(case):
        try:
            check(case, ctx)
        except Violation as v:
            if ctx.is_suppressed(v.key):
                ctx.suppressed_hits[v.key] += 1
                return
            last['case'] = case
            last['v'] = v
            raise
        except hypothesis.errors.HypothesisException:
            raise
        except Exception as ex:  # noqa
            v = classify_crash(ex)
            if v is None:
                raise
            if ctx.is_suppressed(v.key):
                ctx.suppressed_hits[v.key] += 1
                return
            last['case'] = case
            last['v'] = v
            raise v

    try:
        _t()
    except Abort as ab:
        v = ab.violation
        if not ctx.is_suppressed(v.key):
            ctx.fail(v.key, v.msg, ab.case, v.detail)
        else:
            ctx.suppressed_hits[v.key] += 1
    except Violation:
        v = last['v']
        ctx.fail(v.key, v.msg, last['case'], v.detail)
    except hypothesis.errors.Flaky as ex:
        # a flaky failure is a problem of the harness/oracle, not a verdict
        if 'v' in last:
            v = last['v']
            ctx.notes['flaky'] += 1
            ctx.fail(v.key, v.msg + ' [hypothesis reported the failure as flaky]', last['case'], v.detail)
        else:
            raise HarnessError('flaky: {}'.format(ex))


def stateful_run(ctx, machine_cls, max_examples, step_count, salt=0):
    """
    Run a Hypothesis RuleBasedStateMachine.  The machine reports a broken
    invariant by raising ``Violation(key, msg, case={'history': [...]})``; the
    history Hypothesis shrinks to is what gets recorded (and what --replay
    re-executes without Hypothesis).  The machine class gets ``ctx`` as a class
    attribute so it can count cases and consult suppressed keys.
    """
    import hypothesis
    from hypothesis import HealthCheck, Phase, settings
    from hypothesis.stateful import run_state_machine_as_test
    machine_cls.ctx = ctx
    last = {}
    machine_cls._last_violation = last
    st = settings(max_examples=max_examples, stateful_step_count=step_count, database=None, deadline=None,
                  report_multiple_bugs=False, derandomize=False, print_blob=False,
                  phases=[Phase.explicit, Phase.generate, Phase.shrink],
                  suppress_health_check=[HealthCheck.too_slow, HealthCheck.data_too_large,
                                         HealthCheck.filter_too_much, HealthCheck.large_base_example])
    try:
        run_state_machine_as_test(hypothesis.seed(derived_seed(ctx, salt))(machine_cls), settings=st)
    except Violation as v:
        ctx.fail(v.key, v.msg, v.case, v.detail)
    except hypothesis.errors.Flaky as ex:
        if 'v' in last:
            v = last['v']
            ctx.notes['flaky'] += 1
            ctx.fail(v.key, v.msg + ' [reported as flaky by hypothesis]', v.case, v.detail)
        else:
            raise HarnessError('flaky: {}'.format(ex))


def machine_violation(machine, key, msg, case, detail=None):
    """Raise (or, for suppressed keys, count) a violation from inside a state machine."""
    ctx = machine.ctx
    if ctx.is_suppressed(key):
        ctx.suppressed_hits[key] += 1
        return
    v = Violation(key, msg, detail=detail, case=case)
    machine._last_violation['v'] = v
    raise v


# ---------------------------------------------------------------------------
# pool


def _worker(args):
    prop_modname, tier, seed, jobindex, job, suppressed = args
    name, funcname, kwargs = job
    mod = importlib.import_module(prop_modname)
    ctx = Ctx(mod.ID, tier, seed, jobname=name, jobindex=jobindex, suppressed=suppressed)
    try:
        devnull = open(os.devnull, 'w')
        real_stdout = sys.stdout
        try:
            getattr(mod, funcname)(ctx, **kwargs)
        finally:
            sys.stdout = real_stdout
            devnull.close()
        return ('ok', ctx.export())
    except BaseException as ex:  # noqa
        return ('error', {'jobname': name,
                          'trace': ''.join(traceback.format_exception(type(ex), ex, ex.__traceback__))[-6000:]})
    finally:
        # pool workers leave through os._exit (no atexit): remove this process's scratch root here
        try:
            from vp import sandbox
            sandbox.cleanup()
        except Exception:   # noqa
            pass


def run_jobs(mod, tier, seed, suppressed):
    jobs = mod.jobs(tier)
    args = [(mod.__name__, tier, seed, i, job, suppressed) for i, job in enumerate(jobs)]
    nproc = min(NPROC, max(1, len(args)))
    if nproc == 1 or os.environ.get('VP_SERIAL'):
        results = [_worker(a) for a in args]
    else:
        mpctx = multiprocessing.get_context('fork')
        with mpctx.Pool(nproc, maxtasksperchild=1) as pool:
            results = pool.map(_worker, args, chunksize=1)
    return results


def merge(results):
    tot = {
        'evaluations': 0, 'nontrivial': set(), 'nontrivial_extra': 0, 'classes': Counter(),
        'samples': [], 'suppressed_hits': Counter(), 'failures': [], 'notes': Counter(),
        'exhaustive': [], 'errors': [], 'per_job': {},
    }
    for status, res in results:
        if status != 'ok':
            tot['errors'].append(res)
            continue
        tot['evaluations'] += res['evaluations']
        tot['nontrivial'] |= res['nontrivial']
        tot['nontrivial_extra'] += res['nontrivial_extra']
        tot['classes'].update(res['classes'])
        tot['suppressed_hits'].update(res['suppressed_hits'])
        tot['notes'].update(res['notes'])
        tot['exhaustive'].extend(res['exhaustive'])
        base = res['jobname'].split('#')[0]
        pj = tot['per_job'].setdefault(base, {'evaluations': 0, 'workers': 0})
        pj['evaluations'] += res['evaluations']
        pj['workers'] += 1
        for s in res['samples']:
            if len(tot['samples']) < MAX_SAMPLES * 2:
                tot['samples'].append(s)
        tot['failures'].extend(res['failures'])
    return tot
