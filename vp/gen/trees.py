"""
G4 — package tree builder.  A tree is a JSON-able description

    {'top': <unique top-level suffix>, 'dirs': [[relpath, has_init], ...], 'files': [relpath, ...]}

with '/'-separated paths relative to a scratch root.  Shapes: packages
(``__init__.py``), modules, ``__main__.py``, directories without ``__init__.py``
(at the top, in the middle of a chain, as a leaf), a module and a package of
the same name, a module and a plain directory of the same name, names with
underscores and digits.
"""
import os

NAMES = ['pkg', 'sub', 'mod', 'util_x', 'a1', 'data_2', 'core', 'x', 'test__init__', 'run__main__']


def gen_tree(D, suffix, max_depth=3, max_children=4):
    dirs = []
    files = []

    def rec(rel, depth, parent_is_pkg_chain):
        n = D.int(1, max_children)
        used = set()
        for _ in range(n):
            name = D.choice(NAMES)
            if depth == 0:
                name = '{}_{}'.format(name, suffix)
            kind = D.choice(['module', 'package', 'module', 'plain_dir', 'both_pkg', 'both_dir', 'main'])
            path = (rel + '/' + name) if rel else name
            if kind == 'main':
                if rel and (rel + '/__main__.py') not in files:
                    files.append(rel + '/__main__.py')
                continue
            if name in used:
                continue
            used.add(name)
            if kind == 'module':
                files.append(path + '.py')
            elif kind in ('package', 'both_pkg'):
                dirs.append([path, True])
                if kind == 'both_pkg':
                    files.append(path + '.py')
                if depth < max_depth:
                    rec(path, depth + 1, parent_is_pkg_chain)
                else:
                    files.append(path + '/leaf.py')
            elif kind in ('plain_dir', 'both_dir'):
                dirs.append([path, False])
                if kind == 'both_dir':
                    files.append(path + '.py')
                if depth < max_depth and D.bool():
                    rec(path, depth + 1, False)
                else:
                    files.append(path + '/orphan.py')

    rec('', 0, True)
    return {'top': suffix, 'dirs': dirs, 'files': files}


def write_tree(tree, root, content_for=None):
    """content_for(relpath) -> text of the file (default: empty module with a marker)"""
    for rel, has_init in tree['dirs']:
        d = os.path.join(root, *rel.split('/'))
        os.makedirs(d, exist_ok=True)
        if has_init:
            p = os.path.join(d, '__init__.py')
            with open(p, 'w') as f:
                f.write(content_for(rel + '/__init__.py') if content_for else '')
    for rel in tree['files']:
        p = os.path.join(root, *rel.split('/'))
        os.makedirs(os.path.dirname(p), exist_ok=True)
        with open(p, 'w') as f:
            f.write(content_for(rel) if content_for else 'MARK = {!r}\n'.format(rel))


def all_python_files(tree):
    out = list(tree['files'])
    for rel, has_init in tree['dirs']:
        if has_init:
            out.append(rel + '/__init__.py')
    return sorted(set(out))


def is_package_dir(tree, rel):
    return any(r == rel and h for r, h in tree['dirs'])


def top_level_names(tree):
    tops = set()
    for rel, _ in tree['dirs']:
        tops.add(rel.split('/')[0])
    for rel in tree['files']:
        tops.add(rel.split('/')[0].replace('.py', ''))
    return sorted(tops)
