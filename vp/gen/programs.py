"""
G1 (statement grammar) and G2 (docstring layout engine) of DESIGN.md section 5.

A *group* is a small piece of program (one or a few top-level statements) that
executes ``T.append(k)`` exactly once for its id ``k`` (compound kinds append
derived tuples too), so order and multiplicity of execution are observable in
the injected ``T`` list.  Lines are pairs [mark, text]:

    ''    an ordinary program line (gets a '>>> ' or '... ' prompt)
    'U4'  interior line of a triple-quoted string written *without* prompt,
          indented so that four blanks stand where the prompt would be
          (the parser drops those four columns)
    'U0'  unprefixed interior line that starts with text in the first four
          columns (kept whole by the parser's triple-quote rule)

The de-prompted program line is always ``text``.
"""
import ast
import io

from vp.ref import pyexec

# kinds whose final top-level statement is an expression with a non-None value
VALUED = {'valexpr', 'valstr', 'vallist', 'valdict', 'valcall', 'valawait', 'valsemi', 'valtuple_ml', 'valbytes', 'val_after_inline_directive',
          'val_with_inline_directive'}

SIMPLE_KINDS = [
    'call', 'assign', 'print', 'valexpr', 'print2', 'mlist', 'if', 'for', 'def', 'comment', 'semi', 'valstr',
    'mdict', 'mcall', 'tstr', 'tstr_unpref', 'tstr_col0', 'while', 'try', 'with', 'class', 'deco', 'deco2',
    'comment_in_br', 'lambda', 'fstr', 'promptstr', 'backslash', 'oneline_if', 'nested', 'await', 'asyncfor',
    'asyncwith', 'aug', 'ann', 'walrus', 'star', 'imp', 'assert', 'del', 'global', 'match', 'dirstr',
    'vallist', 'valdict', 'valcall', 'valawait', 'valsemi', 'valtuple_ml', 'valbytes', 'printblank',
    'tstr_blank', 'tstr_col0_dq', 'classdeco', 'tryfinally', 'forelse_print', 'genexpr', 'comment_after',
    'stdout_ref', 'stdout_write_bound', 'tstr_trailing_ws', 'print_inline_directive', 'val_after_inline_directive',
    'val_with_inline_directive', 'print_indented', 'tstr_other_quotes', 'classdeco_after_inline_directive',
]


def make_group(k, kind):
    """Returns {'k','kind','lines':[[mark,text],...]}.  Deterministic."""
    t = 'T.append({})'.format(k)
    L = None
    if kind == 'call':
        L = [t]
    elif kind == 'assign':
        L = ['v{0} = {1} or {0}'.format(k, t)]
    elif kind == 'print':
        L = ["print('o{}', {})".format(k, t)]
    elif kind == 'print2':
        L = ["print('o{0}a\\no{0}b', {1})".format(k, t)]
    elif kind == 'print_indented':
        # every line of the output starts with blanks of its own (centred text, a table with a margin)
        L = ["print('    i{0}a\\n      i{0}b', {1})".format(k, t)]
    elif kind == 'printblank':
        L = ["print('p{0}a\\n\\np{0}b', {1})".format(k, t)]
    elif kind == 'mlist':
        L = ['v{} = ['.format(k), '    {},'.format(t), '    {},'.format(k), ']']
    elif kind == 'mdict':
        L = ["v{} = {{'a': {},".format(k, t), "       'b': [1,", '             2]}']
    elif kind == 'mcall':
        L = ["print('m{}',".format(k), '      {},'.format(t), "      sep='-')"]
    elif kind == 'tstr':
        L = ["v{} = ({}, '''line1 {}".format(k, t, k), '  line2', "line3''')"]
    elif kind == 'print_inline_directive':
        # inline directives that do not change what runs (they still make the parser cut parts)
        L = ["print('d{}', {})  # xdoctest: +ELLIPSIS".format(k, t)]
    elif kind == 'val_after_inline_directive':
        L = ['w{} = ({} or 2)  # doctest: +NORMALIZE_WHITESPACE'.format(k, t), 'w{} + 1'.format(k)]
    elif kind == 'val_with_inline_directive':
        L = ['u{} = 5'.format(k), '({} or u{})  # xdoctest: +ELLIPSIS'.format(t, k)]
    elif kind == 'tstr_trailing_ws':
        # the first physical line of the statement ends in blanks that belong to the string
        L = ["v{} = ({}, '''alpha {}  ".format(k, t, k), "beta'''  )"]
    elif kind == 'tstr_unpref':
        L = ["v{} = ({}, '''line1 {}".format(k, t, k), ['U4', '    indented text'], ['U4', ' more'], "''')"]
    elif kind == 'tstr_col0':
        L = ["v{} = ({}, '''".format(k, t), ['U0', 'zero col text'], ['U0', 'ab'], "''')"]
    elif kind == 'tstr_col0_dq':
        L = ['v{} = ({}, """dq'.format(k, t), ['U0', 'zero col in double quotes'], '""")']
    elif kind == 'tstr_other_quotes':
        # a ''' string whose unprefixed content (text in the first four columns) mentions the other kind of triple quote,
        # opened on one line and closed on a later one (a code template that holds a docstring)
        L = ["v{} = ({}, '''".format(k, t), ['U0', 'def tmpl():'], ['U0', '\"\"\" opens'], ['U0', 'inside the other quotes'],
             ['U0', 'closes \"\"\"'], ['U0', 'ab'], "''')"]
    elif kind == 'tstr_blank':
        L = ['v{} = ({}, """first'.format(k, t), ['U4', ''], ['U4', 'after blank'], '""")']
    elif kind == 'if':
        L = ['if {} > 0:'.format(k), '    ' + t, 'elif False:', '    pass', 'else:', '    T.append(-1)']
    elif kind == 'for':
        L = ['for i{0} in range(2):'.format(k), '    T.append(({0}, i{0}))'.format(k), 'else:', "    v{} = 'done'".format(k)]
    elif kind == 'forelse_print':
        L = ['for i{0} in range(2):'.format(k), "    print('f{0}', i{0})".format(k), t]
    elif kind == 'while':
        L = ['n{} = 0'.format(k), 'while n{} < 2:'.format(k), '    n{} += 1'.format(k), '    T.append(({0}, n{0}))'.format(k)]
    elif kind == 'try':
        L = ['try:', '    ' + t, '    1 / 0', 'except ZeroDivisionError as e:', "    print('caught{}')".format(k),
             'finally:', '    v{} = 1'.format(k)]
    elif kind == 'tryfinally':
        L = ['try:', '    ' + t, 'finally:', "    print('fin{}')".format(k)]
    elif kind == 'with':
        L = ["with open('/dev/null') as fh{}:".format(k), '    ' + t]
    elif kind == 'def':
        L = ['def f{}(a, b=2):'.format(k), "    '''doc'''", '    T.append(({}, a))'.format(k), '', '    return a + b',
             'v{0} = f{0}(1)'.format(k)]
    elif kind == 'class':
        L = ['class C{}:'.format(k), '    x = 1', '    def m(self):', '        ' + t, '        return self.x', '',
             '    def n(self):', '        return 2', 'v{0} = C{0}().m()'.format(k)]
    elif kind == 'deco':
        L = ['def d{}(fn):'.format(k), "    T.append(('deco', {}))".format(k), '    return fn', '@d{}'.format(k),
             'def g{}():'.format(k), '    return {}'.format(k), 'T.append(g{}())'.format(k)]
    elif kind == 'deco2':
        L = ['def d{}(fn):'.format(k), '    return fn', 'def e{}(fn):'.format(k), '    return fn', '@d{}'.format(k),
             '@e{}'.format(k), 'def g{}(x):'.format(k), '    T.append(x)', '    return x', 'v{0} = g{0}({0})'.format(k)]
    elif kind == 'classdeco':
        L = ['def cd{}(cls):'.format(k), '    cls.tag = {}'.format(k), '    return cls', '@cd{}'.format(k),
             'class K{}:'.format(k), '    pass', 'T.append(K{}.tag)'.format(k)]
    elif kind == 'classdeco_after_inline_directive':
        # the part cut made by an inline directive falls right before the '@' line of a decorated class (and of a function)
        L = ['def cd{}(cls):'.format(k), '    cls.tag = {}'.format(k), '    return cls',
             'z{} = ({} or 1)  # xdoctest: +ELLIPSIS'.format(k, t), '@cd{}'.format(k),
             'class K{}:'.format(k), '    pass', 'T.append(K{}.tag)  # doctest: +ELLIPSIS'.format(k),
             '@cd{}'.format(k), 'def h{}():'.format(k), '    pass', 'T.append(h{}.tag)'.format(k)]
    elif kind == 'semi':
        L = ['a{0} = 1; {1}; b{0} = 2'.format(k, t)]
    elif kind == 'comment':
        L = ['# a comment {}'.format(k), t]
    elif kind == 'comment_after':
        L = [t, '# trailing comment {}'.format(k)]
    elif kind == 'comment_in_br':
        L = ['v{} = ({},  # trailing comment'.format(k, t), '       # full line comment', '       {})'.format(k)]
    elif kind == 'lambda':
        L = ['h{} = lambda x: (T.append(x), x)[1]'.format(k), 'v{0} = h{0}({0})'.format(k)]
    elif kind == 'fstr':
        L = ['v{0} = f"{{ {0}!r:>{{4}}}}\'\'\'" + \'#notcomment\''.format(k), t]
    elif kind == 'promptstr':
        L = ["v{} = '>>> not code # xdoctest: +SKIP'".format(k), t]
    elif kind == 'dirstr':
        L = ["v{} = '''# xdoctest: +SKIP'''".format(k), t]
    elif kind == 'backslash':
        L = ['v{} = 1 + \\'.format(k), '    {}'.format(k), t]
    elif kind == 'oneline_if':
        L = ['if True: ' + t]
    elif kind == 'nested':
        L = ['def o{}():'.format(k), '    def inner():', '        ' + t, '    inner()', '    return inner', '_ = o{}()'.format(k)]
    elif kind == 'await':
        L = ['async def co{}():'.format(k), '    ' + t, '    return {}'.format(k), 'v{0} = await co{0}()'.format(k)]
    elif kind == 'asyncfor':
        L = ['async def ag{}():'.format(k), '    for j in range(2):', '        yield j',
             'async for j{0} in ag{0}():'.format(k), '    T.append(({0}, j{0}))'.format(k)]
    elif kind == 'asyncwith':
        L = ['import contextlib', '@contextlib.asynccontextmanager', 'async def cm{}():'.format(k), '    ' + t, '    yield 1',
             'async with cm{0}() as w{0}:'.format(k), '    T.append(w{})'.format(k)]
    elif kind == 'aug':
        L = ['v{} = 1'.format(k), 'v{} += ({} or 1)'.format(k, t)]
    elif kind == 'ann':
        L = ['v{}: int = ({} or 1)'.format(k, t)]
    elif kind == 'walrus':
        L = ['_ = (w{0} := ({1} or {0}))'.format(k, t)]
    elif kind == 'star':
        L = ['a{0}, *b{0} = ({1}, 1, 2)'.format(k, t)]
    elif kind == 'imp':
        L = ['import os.path as osp', 'from collections import OrderedDict as OD', t]
    elif kind == 'assert':
        L = ["assert ({} or True), 'msg'".format(t)]
    elif kind == 'del':
        L = ['v{} = {}'.format(k, t), 'del v{}'.format(k)]
    elif kind == 'global':
        L = ['def gg{}():'.format(k), '    global G{}'.format(k), '    G{0} = {0}'.format(k), '    ' + t, 'gg{}()'.format(k)]
    elif kind == 'match':
        L = ['match {}:'.format(k), '    case {}:'.format(k), '        ' + t, '    case _:', '        pass']
    elif kind == 'stdout_ref':
        # the first group of this kind keeps a reference to sys.stdout (hidden in a function default, so that the
        # bindings stay comparable); every group of this kind writes through that - possibly stale - reference
        L = ['import sys', "W = globals().get('W') or (lambda s=sys.stdout: s)", "_ = W().write('w{}\\n')".format(k), t]
    elif kind == 'stdout_write_bound':
        L = ['import sys', "BW = globals().get('BW') or (lambda w=sys.stdout.write: w)", "_ = BW()('bw{}\\n')".format(k), t]
    elif kind == 'genexpr':
        L = ['v{0} = sum(x for x in [1, 2, {0}])'.format(k), t]
    # ---- value-bearing final expressions
    elif kind == 'valexpr':
        L = ['({} or {}) + 1'.format(t, k)]
    elif kind == 'valstr':
        L = ["({} or 's{}')".format(t, k)]
    elif kind == 'valbytes':
        L = ["({} or b'b{}')".format(t, k)]
    elif kind == 'vallist':
        L = ['[{} or 1,'.format(t), "    'x{}']".format(k)]
    elif kind == 'valtuple_ml':
        L = ['({} or {},'.format(t, k), ' 2,', ' 3)']
    elif kind == 'valdict':
        L = ["{{'a': {} or {}}}".format(t, k)]
    elif kind == 'valcall':
        L = ['def pv{}(x):'.format(k), "    print('in pv{}', x)".format(k), '    return x * 2', 'pv{}({} or 3)'.format(k, t)]
    elif kind == 'valawait':
        L = ['async def cv{}():'.format(k), '    ' + t, '    return {} + 100'.format(k), 'await cv{}()'.format(k)]
    elif kind == 'valsemi':
        L = ['a{} = 1; ({} or 7)'.format(k, t)]
    else:
        raise KeyError(kind)
    lines = [[x[0], x[1]] if isinstance(x, list) else ['', x] for x in L]
    return {'k': k, 'kind': kind, 'lines': lines}


def group_source(group):
    return '\n'.join(text for _, text in group['lines'])


def statement_starts(group):
    """Indices of the lines that begin a top-level statement (decorator line for
    decorated definitions) or a stand-alone comment."""
    src = group_source(group)
    tree = ast.parse(src)
    starts = set()
    covered = set()
    for n in tree.body:
        ln = n.lineno
        if getattr(n, 'decorator_list', None):
            ln = n.decorator_list[0].lineno
        starts.add(ln - 1)
        for i in range(ln - 1, n.end_lineno):
            covered.add(i)
    for i, (mark, text) in enumerate(group['lines']):
        if i not in covered and text.lstrip().startswith('#') and not mark:
            starts.add(i)
    return starts


PROMPT_STYLES = ['new', 'old', 'oldterm']


def layout_group(group, style, detail=False):
    """-> list of docstring lines (relative to the chunk indentation); with ``detail`` a list of
    (docstring line, line as re-formatted by xdoctest, executable line)"""
    starts = statement_starts(group)
    out = []
    n = len(group['lines'])
    for i, (mark, text) in enumerate(group['lines']):
        if mark == 'U4':
            out.append((('    ' + text) if text else '', ('    ' + text) if text else '', text))
        elif mark == 'U0':
            out.append((text, '... ' + text, text))
        else:
            pre = '>>> ' if (i in starts or style == 'new') else '... '
            ln = (pre + text).rstrip() if text == '' else pre + text
            out.append((ln, ln, text))
    if style == 'oldterm' and n > 1 and (n - 1) not in starts and not group['lines'][-1][0]:
        out.append(('...', '...', ''))
    if detail:
        return out
    return [t[0] for t in out]


def render_want(text):
    """stdout text -> want lines (inner empty lines become <BLANKLINE>)"""
    lines = text.rstrip('\n').split('\n')
    return [ln if ln else '<BLANKLINE>' for ln in lines]


def gen_program(D, max_groups=8, kinds=None, want_bias=2):
    """
    Draws a program + layout.  Returns a JSON-able dict:

      doc        docstring text
      prog       list of de-prompted program lines
      groups     [{'k','kind','style','want':[...]|None,'valued':bool, 'echo': str|None}]
      labels     per docstring line: ['src'|'want'|'text', group index or -1]
      features   list of feature tags (for the evidence histogram)
    """
    kinds = kinds or SIMPLE_KINDS
    n = D.int(1, max_groups)
    groups = []
    for i in range(n):
        # bias towards the head of the list (simple kinds) only through shrinking
        kind = D.choice(kinds)
        groups.append(make_group(i + 1, kind))
    base_indent = D.choice(['', '    ', '        ', '\t', '  ', '\t\t'])
    example_indent = D.choice(['', '    ', ''])
    # reference execution, group by group, to know the true outputs
    ns = {'T': []}
    stream = io.StringIO()     # one sys.stdout for the whole reference program
    since = ''
    meta = []
    doc = []      # (line, label, gi)
    fmt_lines = []   # src and want lines as xdoctest re-formats them (chunk indentation removed)
    exec_lines = []  # executable line for every src-labelled docstring line
    feats = set()
    if D.chance(1, 3):
        doc.append(('Some leading prose.', 'text', -1))
        doc.append(('', 'text', -1))
        feats.add('leading_prose')
    gind = example_indent          # indentation of the current group relative to the docstring's base indentation
    may_change = False             # a new chunk starts here (a want or a separator came before): its indentation is free
    for gi, g in enumerate(groups):
        if gi and may_change and D.chance(1, 4):
            new = D.choice(['', '    ', '  ', '      '])
            if new != gind:
                feats.add('indent_change:' + ('shallower' if len(new) < len(gind) else 'deeper'))
                gind = new
        out, value, is_expr, exc = pyexec.exec_unit(group_source(g), ns, stream=stream)
        if exc is not None:
            raise AssertionError('generator bug: group {} raised {!r}'.format(g['kind'], exc))
        valued = is_expr and value is not None
        assert valued == (g['kind'] in VALUED), g['kind']
        style = D.choice(PROMPT_STYLES)
        want = None
        echo = None
        choice = D.int(0, want_bias)   # 0: no want
        if valued:
            echo = repr(value) + '\n'
            if choice:
                if not out and D.bool():
                    want = render_want(repr(value))       # the value alone
                else:
                    want = render_want(since + out + repr(value))   # REPL-complete
                since = ''
            else:
                since += out
        else:
            since += out
            if choice and since:
                want = render_want(since)
                since = ''
        for ln, fmt, exe in layout_group(g, style, detail=True):
            doc.append((gind + ln if ln else ln, 'src', gi))
            fmt_lines.append(fmt)
            exec_lines.append(exe)
        if want:
            for ln in want:
                doc.append((gind + ln, 'want', gi))
                fmt_lines.append(ln)
        # separator
        last = gi == len(groups) - 1
        sep = D.choice(['none', 'blank', 'prose', 'blank2', 'dedent_prose'])
        if sep == 'blank' or (sep == 'dedent_prose' and not (want and gind)):
            if sep == 'dedent_prose':
                sep = 'blank'
            doc.append(('', 'text', -1))
        elif sep == 'blank2':
            doc.append(('', 'text', -1))
            doc.append(('', 'text', -1))
        elif sep == 'prose':
            doc.append(('', 'text', -1))
            doc.append(('Some prose between examples, with >> and .... in it.', 'text', -1))
            doc.append(('', 'text', -1))
        elif sep == 'dedent_prose':
            # a de-indented line directly after a want is text
            doc.append(('De-indented prose ends the want.', 'text', -1))
            doc.append(('', 'text', -1))
        feats.add('sep:' + sep)
        may_change = bool(want) or sep != 'none'
        if want and sep == 'none':
            feats.add('next_group_directly_after_want')
        feats.add('style:' + style)
        feats.add('kind:' + g['kind'])
        if want:
            feats.add('has_want')
            if len(want) > 1:
                feats.add('want_multiline')
        meta.append({'k': g['k'], 'kind': g['kind'], 'style': style, 'want': want, 'valued': valued,
                     'echo': echo if (valued and want) else None, 'out': out,
                     'nlines': len(g['lines'])})
    if base_indent:
        feats.add('indent:tab' if '\t' in base_indent else 'indent:spaces')
    if example_indent:
        feats.add('example_indent')
    text = '\n'.join((base_indent + ln) if ln else ln for ln, _, _ in doc) + '\n'
    prog = [t for g in groups for _, t in g['lines']]
    labels = [[lab, gi] for _, lab, gi in doc]
    return {'doc': text, 'prog': prog, 'groups': meta, 'labels': labels, 'features': sorted(feats),
            'base_indent': base_indent, 'example_indent': example_indent,
            'fmt_lines': fmt_lines, 'exec_lines': exec_lines}
