"""
A thin wrapper around Hypothesis' ``draw`` so that generators read like plain
code while every random choice stays inside the library (shrinkable,
replayable, seeded).  Integers shrink towards the lower bound, so the first
alternative of every ``choice`` should be the simplest one.
"""
from hypothesis import strategies as st


class D(object):
    def __init__(self, draw):
        self._draw = draw

    def draw(self, strategy):
        return self._draw(strategy)

    def int(self, lo, hi):
        return self._draw(st.integers(lo, hi))

    def bool(self):
        return self._draw(st.booleans())

    def chance(self, num, den):
        """True with probability num/den (False is the simple value)."""
        return self._draw(st.integers(0, den - 1)) >= den - num

    def choice(self, seq):
        seq = list(seq)
        return seq[self._draw(st.integers(0, len(seq) - 1))]

    def weighted(self, pairs):
        """pairs: [(value, weight), ...]"""
        total = sum(w for _, w in pairs)
        r = self._draw(st.integers(0, total - 1))
        for v, w in pairs:
            if r < w:
                return v
            r -= w
        return pairs[-1][0]

    def subset(self, seq, max_size=None):
        seq = list(seq)
        flags = self._draw(st.lists(st.booleans(), min_size=len(seq), max_size=len(seq)))
        out = [x for x, f in zip(seq, flags) if f]
        if max_size is not None:
            out = out[:max_size]
        return out

    def shuffled(self, seq):
        return list(self._draw(st.permutations(list(seq))))

    def text(self, alphabet, lo=0, hi=10):
        return self._draw(st.text(alphabet=alphabet, min_size=lo, max_size=hi))


def composite(fn):
    """``@composite def gen(D, ...)`` -> Hypothesis strategy factory."""
    @st.composite
    def wrapper(draw, *args, **kwargs):
        return fn(D(draw), *args, **kwargs)
    wrapper.__name__ = fn.__name__
    return wrapper
