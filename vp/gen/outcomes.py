"""
G6 — modules whose doctests have by-construction outcomes (shared by C10, C15).

A module is a list of zero-argument functions ``f0 .. fn``; every function has
a docstring with one (sometimes two) doctest blocks, either under a google
``Example:`` tag or as bare prompts.  Every block has a *kind* that fixes its
outcome; every statement that is allowed to execute calls ``_vp_trace('<id>')``
which appends to the file named by $VP_TRACE, so "executed exactly once" is a
multiset comparison.

    kinds                                  outcome       trace
    pass                                   passed        yes
    fail_out      wrong want               failed        yes
    fail_exc      raises                   failed        yes
    fail_last     passes, last stmt fails  failed        yes
    all_skipped   block +SKIP first        skipped       no
    inline_skipped_after_directive / req_after_directive
                  a harmless block directive first, then every statement skipped     skipped   no
    req_unmet     block +REQUIRES(unmet)   skipped       no
    partly        one stmt inline +SKIP    passed        yes
    expected_exc  traceback want           passed        yes
    comment_only  only a comment           skipped       no
    disabled_*    force-disable pattern, body would fail:
                  not run by 'all'; failed + traced when named
    needs_ellipsis   want uses '...'       passed unless -ELLIPSIS
    needs_nw         want re-flowed        passed unless -NORMALIZE_WHITESPACE
    needs_iw         want without blanks   failed unless +IGNORE_WHITESPACE
    skip_default     plain pass            skipped when +SKIP is the default option

The inventory is a function of (case, style, options) only.
"""

DISABLE_PATTERNS = ['# DISABLE_DOCTEST', '# UNSTABLE', '# FAILING', '# SCRIPT', '# SLOW_DOCTEST']
DISABLE_PATTERNS_LC = ['# disable_doctest', '# Script', '# Unstable', '# failing']
BASE_KINDS = ['pass', 'fail_out', 'fail_exc', 'fail_last', 'all_skipped', 'req_unmet', 'partly', 'expected_exc', 'comment_only',
              'disabled', 'pass', 'fail_out', 'inline_skipped_after_directive', 'req_after_directive', 'fail_warn', 'pass_warn',
              'fail_directive_first', 'comment_then_skipped', 'skipped_then_comment', 'expected_exc_nomsg', 'expected_exc_qualified',
              'expected_exc_syntax', 'pass_marker_word_comment', 'runtime_pytest_skip', 'runtime_exit_test', 'skip_resume_pass',
              'skip_resume_fail', 'skip_resume_inline', 'comment_only_indented', 'skipped_then_comment_indented']
OPTION_KINDS = ['needs_ellipsis', 'needs_nw', 'needs_iw']
MERGEABLE = ('pass', 'fail_out', 'fail_exc', 'fail_last', 'expected_exc')


def block_lines(kind, tid, ind, pattern=None):
    """prompt lines of one block; tid identifies the doctest in the trace"""
    L = []
    t = "{}>>> _vp_trace('{}')".format(ind, tid)
    if kind == 'pass':
        L += [t, "{}>>> print('out {}')".format(ind, tid), '{}out {}'.format(ind, tid)]
    elif kind == 'fail_out':
        L += [t, "{}>>> print('out {}')".format(ind, tid), '{}something else'.format(ind)]
    elif kind == 'fail_exc':
        L += [t, "{}>>> raise KeyError('{}')".format(ind, tid)]
    elif kind == 'fail_last':
        L += [t, "{}>>> print('a')".format(ind), '{}a'.format(ind), "{}>>> x = 1".format(ind), "{}>>> print(x + 1)".format(ind), '{}3'.format(ind)]
    elif kind == 'all_skipped':
        L += ['{}>>> # xdoctest: +SKIP'.format(ind), t, "{}>>> print('never')".format(ind), '{}wrong'.format(ind)]
    elif kind == 'req_unmet':
        L += ['{}>>> # xdoctest: +REQUIRES(env:VP_NEVER_SET_VARIABLE==1)'.format(ind), t, "{}>>> print('never')".format(ind),
              '{}wrong'.format(ind)]
    elif kind == 'inline_skipped_after_directive':
        # opens with a block directive that skips nothing; every statement is then skipped inline
        L += ['{}>>> # xdoctest: +IGNORE_WHITESPACE'.format(ind), t + '  # xdoctest: +SKIP',
              "{}>>> print('never')  # xdoctest: +SKIP".format(ind), '{}wrong'.format(ind)]
    elif kind == 'req_after_directive':
        L += ['{}>>> # xdoctest: +ELLIPSIS'.format(ind), '{}>>> # xdoctest: +REQUIRES(env:VP_NEVER_SET_VARIABLE==1)'.format(ind), t,
              "{}>>> print('never')".format(ind), '{}wrong'.format(ind)]
    elif kind == 'fail_warn':
        # emits a warning, then fails: it is a failure like any other
        L += [t, '{}>>> import warnings'.format(ind), "{}>>> warnings.warn('vp warning from {}')".format(ind, tid),
              "{}>>> print('out {}')".format(ind, tid), '{}something else'.format(ind)]
    elif kind == 'pass_warn':
        L += [t, '{}>>> import warnings'.format(ind), "{}>>> warnings.warn('vp warning from {}')".format(ind, tid),
              "{}>>> print('out {}')".format(ind, tid), '{}out {}'.format(ind, tid)]
    elif kind == 'fail_directive_first':
        # a malformed directive on the first statement: the doctest fails before anything ran
        L += [t + '  # xdoctest: +REQUIRES(nosuchkind:zzz)', "{}>>> print('never')".format(ind)]
    elif kind == 'disabled_lc':
        L += ['{}>>> {}'.format(ind, pattern or DISABLE_PATTERNS_LC[0]), t, "{}>>> print('body would fail')".format(ind), '{}wrong'.format(ind)]
    elif kind == 'partly':
        L += [t, "{}>>> print('skipped stmt')  # xdoctest: +SKIP".format(ind), '{}wrong'.format(ind), "{}>>> print('ran')".format(ind),
              '{}ran'.format(ind)]
    elif kind == 'expected_exc':
        L += [t, "{}>>> raise ValueError('expected {}')".format(ind, tid), '{}Traceback (most recent call last):'.format(ind),
              '{}ValueError: expected {}'.format(ind, tid)]
    elif kind == 'comment_then_skipped':
        # a plain comment (a part of its own, met while nothing is skipped yet) next to code that is all skipped
        L += ['{}>>> # just a remark'.format(ind), '{}>>> # xdoctest: +SKIP'.format(ind), t, "{}>>> print('never')".format(ind), '{}wrong'.format(ind)]
    elif kind == 'skipped_then_comment':
        L += [t + '  # xdoctest: +SKIP', "{}>>> print('never')  # xdoctest: +SKIP".format(ind), '{}wrong'.format(ind),
              '{}>>> # xdoctest: -SKIP'.format(ind), '{}>>> # a trailing remark'.format(ind)]
    elif kind == 'expected_exc_nomsg':
        L += [t, '{}>>> raise NotImplementedError'.format(ind), '{}Traceback (most recent call last):'.format(ind),
              '{}NotImplementedError'.format(ind)]
    elif kind == 'expected_exc_qualified':
        L += [t, '{}>>> import configparser'.format(ind), "{}>>> raise configparser.Error('vp {}')".format(ind, tid),
              '{}Traceback (most recent call last):'.format(ind), '{}configparser.Error: vp {}'.format(ind, tid)]
    elif kind == 'expected_exc_syntax':
        L += [t, "{}>>> eval('1 +')".format(ind), '{}Traceback (most recent call last):'.format(ind), '{}SyntaxError: invalid syntax'.format(ind)]
    elif kind == 'pass_marker_word_comment':
        # comments that merely begin with a force-disable word, on lines other than the first: an ordinary doctest
        L += [t, '{}>>> # unstable sorting would also do here'.format(ind), "{}>>> print('out {}')".format(ind, tid), '{}out {}'.format(ind, tid),
              '{}>>> # scripts usually print more'.format(ind), '{}>>> # failing that, nothing happens'.format(ind)]
    elif kind == 'runtime_pytest_skip':
        # the doctest body itself calls pytest.skip(): the doctest ends there, gracefully (what ran before counts)
        L += [t, '{}>>> import pytest'.format(ind), "{}>>> pytest.skip('vp: skipped at run time')".format(ind), "{}>>> print('never')".format(ind),
              '{}wrong'.format(ind)]
    elif kind == 'runtime_exit_test':
        L += [t, '{}>>> import xdoctest'.format(ind), '{}>>> raise xdoctest.ExitTestException()'.format(ind), "{}>>> print('never')".format(ind),
              '{}wrong'.format(ind)]
    elif kind == 'comment_only':
        L += ['{}>>> # nothing to run here'.format(ind)]
    elif kind == 'comment_only_indented':
        # comment-only parts whose comment lines are indented after the prompt / sit on continuation lines
        L += ['{}>>> # for item in items:'.format(ind), '{}>>>     # process(item)'.format(ind), '{}>>> # and then'.format(ind),
              '{}...     # nothing more'.format(ind)]
    elif kind == 'skipped_then_comment_indented':
        L += [t + '  # xdoctest: +SKIP', "{}>>> print('never')  # xdoctest: +SKIP".format(ind), '{}wrong'.format(ind),
              '{}>>> # xdoctest: -SKIP'.format(ind), '{}>>>     # an indented trailing remark'.format(ind)]
    elif kind in ('skip_resume_pass', 'skip_resume_fail'):
        # opens with a block +SKIP on its very first line, switches skipping off again further down: the rest runs
        L += ['{}>>> # xdoctest: +SKIP'.format(ind), "{}>>> print('never')".format(ind), '{}wrong'.format(ind), '{}>>> # xdoctest: -SKIP'.format(ind),
              t, "{}>>> print('out {}')".format(ind, tid), '{}{}'.format(ind, 'out ' + tid if kind == 'skip_resume_pass' else 'something else')]
    elif kind == 'skip_resume_inline':
        # block +SKIP first, one statement re-enabled inline
        L += ['{}>>> # xdoctest: +SKIP'.format(ind), "{}>>> print('never')".format(ind), '{}wrong'.format(ind), t + '  # xdoctest: -SKIP',
              "{}>>> print('never either')".format(ind), '{}wrong'.format(ind)]
    elif kind == 'disabled':
        L += ['{}>>> {}'.format(ind, pattern or DISABLE_PATTERNS[0]), t, "{}>>> print('body would fail')".format(ind), '{}wrong'.format(ind)]
    elif kind == 'needs_ellipsis':
        L += [t, "{}>>> print('head middle tail')".format(ind), '{}head ... tail'.format(ind)]
    elif kind == 'needs_nw':
        L += [t, "{}>>> print('one   two')".format(ind), '{}one two'.format(ind)]
    elif kind == 'needs_iw':
        L += [t, "{}>>> print('one two')".format(ind), '{}onetwo'.format(ind)]
    else:
        raise KeyError(kind)
    return L


def outcome_of(kind, options=()):
    """(outcome, traced) when the block runs as its own doctest under 'all'"""
    opts = set(options)
    if '+SKIP' in opts and kind == 'fail_directive_first':
        return 'failed', False        # the malformed directive is met before any skip decision
    if kind in ('skip_resume_pass', 'skip_resume_inline'):
        return 'passed', True            # with or without a +SKIP default: the block / inline -SKIP wins from there on
    if kind == 'skip_resume_fail':
        return 'failed', True
    if '+SKIP' in opts and kind not in ('comment_only', 'comment_only_indented'):
        # every statement is skipped from the start; a block -SKIP is not generated
        return 'skipped', False
    if kind in ('pass', 'partly', 'expected_exc', 'pass_warn', 'expected_exc_nomsg', 'expected_exc_qualified', 'expected_exc_syntax',
                'pass_marker_word_comment', 'runtime_pytest_skip', 'runtime_exit_test'):
        return 'passed', True
    if kind in ('fail_out', 'fail_exc', 'fail_last', 'fail_warn'):
        return 'failed', True
    if kind == 'fail_directive_first':
        return 'failed', False
    if kind == 'disabled_lc':
        return 'failed', True            # when it runs (lower-case spelling: whether it is force-disabled is left open)
    if kind in ('all_skipped', 'req_unmet', 'comment_only', 'inline_skipped_after_directive', 'req_after_directive', 'comment_then_skipped',
                'skipped_then_comment', 'comment_only_indented', 'skipped_then_comment_indented'):
        return 'skipped', False
    if kind == 'disabled':
        return 'failed', True            # only when named explicitly
    if kind == 'needs_ellipsis':
        return ('failed' if '-ELLIPSIS' in opts else 'passed'), True
    if kind == 'needs_nw':
        return ('failed' if '-NORMALIZE_WHITESPACE' in opts else 'passed'), True
    if kind == 'needs_iw':
        return ('passed' if '+IGNORE_WHITESPACE' in opts else 'failed'), True
    raise KeyError(kind)


def gen_module(D, max_funcs=8, option_kinds=False, min_funcs=0, lc_disable=False):
    funcs = []
    kinds = BASE_KINDS + (OPTION_KINDS + OPTION_KINDS if option_kinds else []) + (['disabled_lc'] if lc_disable else [])
    for i in range(D.int(min_funcs, max_funcs)):
        name = 'f{}'.format(i)
        if i and D.chance(1, 5):
            # a name that has an earlier name as a strict prefix (f1 / f1x): naming 'f1' must not select 'f1x'
            name = 'f{}x'.format(D.int(0, i - 1))
            if any(g['name'] == name for g in funcs):
                name = 'f{}'.format(i)
        layout = D.choice(['google', 'google', 'bare'])
        blocks = []
        k = D.choice(kinds)
        pat = D.choice(DISABLE_PATTERNS) if k == 'disabled' else (D.choice(DISABLE_PATTERNS_LC) if k == 'disabled_lc' else None)
        blocks.append({'kind': k, 'pattern': pat})
        if layout == 'google' and k in MERGEABLE and D.chance(1, 4):
            blocks.append({'kind': D.choice(list(MERGEABLE)), 'pattern': None})
        in_class = D.chance(1, 4)
        if in_class:
            # a method may carry the name of a module-level function (K.f1 next to f1)
            cand = 'f{}'.format(D.int(0, i))
            if all(not (g['in_class'] and g['name'] == cand) for g in funcs):
                name = cand
        funcs.append({'name': name, 'layout': layout, 'blocks': blocks, 'in_class': in_class})
    case = {'funcs': funcs}
    if D.chance(1, 3):
        # the class itself carries a doctest: naming 'K' must not select the methods 'K.f1'
        case['class_doc'] = D.choice(['pass', 'fail_out', 'fail_exc', 'all_skipped', 'disabled'])
    return case


def ordered(case):
    """module order: the plain functions, then one class K (its own docstring first) holding the methods"""
    fs = case['funcs']
    out = [f for f in fs if not f.get('in_class')]
    if case.get('class_doc'):
        out.append({'name': 'K', 'layout': 'google', 'in_class': False, 'is_class': True,
                    'blocks': [{'kind': case['class_doc'], 'pattern': DISABLE_PATTERNS[0] if case['class_doc'] == 'disabled' else None}]})
    return out + [f for f in fs if f.get('in_class')]


def module_lines(case):
    L = ['import os', '', '', 'def _vp_trace(ident):', "    with open(os.environ['VP_TRACE'], 'a') as fh:",
         "        fh.write(ident + '\\n')", '', '']
    in_class = False
    for fn in ordered(case):
        if fn.get('is_class'):
            L += ['class K(object):', '    """', '    Summary of K.', '', '    Example:']
            L += block_lines(fn['blocks'][0]['kind'], 'K:0', '        ', fn['blocks'][0].get('pattern'))
            L += ['    """', '    attr = 1', '']
            in_class = True
            continue
        if fn.get('in_class'):
            if not in_class:
                L += ['class K(object):', '    attr = 1', '']
                in_class = True
            ind = '    '
        else:
            in_class = False
            ind = ''
        L.append('{}def {}({}):'.format(ind, fn['name'], 'self=None' if ind else ''))
        L.append('{}    """'.format(ind))
        L.append('{}    Summary of {}.'.format(ind, fn['name']))
        for b, blk in enumerate(fn['blocks']):
            L.append('')
            tid = '{}:{}'.format(callname(fn), b)
            if fn['layout'] == 'google':
                L.append('{}    Example:'.format(ind))
                L += block_lines(blk['kind'], tid, ind + '        ', blk.get('pattern'))
            else:
                L += block_lines(blk['kind'], tid, ind + '    ', blk.get('pattern'))
        L.append('{}    """'.format(ind))
        L.append('{}    return 1'.format(ind))
        L += ['', '']
    return L


def callname(fn):
    return ('K.' if fn.get('in_class') else '') + fn['name']


def inventory(case, style, options=()):
    """
    list of dicts: id, callname, num, disabled, outcome ('passed'|'failed'|'skipped'; for a
    disabled doctest the outcome it has when named), traces (ids written when it runs)
    """
    out = []
    for fn in ordered(case):
        cn = callname(fn)
        google = fn['layout'] == 'google'
        if style == 'google' and not google:
            continue
        if google and style in ('google', 'auto'):
            for b, blk in enumerate(fn['blocks']):
                oc, tr = outcome_of(blk['kind'], options)
                out.append({'id': '{}:{}'.format(cn, b), 'callname': cn, 'num': b, 'disabled': blk['kind'] == 'disabled',
                            'maybe_disabled': blk['kind'] == 'disabled_lc',
                            'kind': blk['kind'], 'outcome': oc, 'traces': ['{}:{}'.format(cn, b)] if tr else []})
        else:
            # one doctest for the docstring: the blocks run in sequence until the first failure
            kinds = [blk['kind'] for blk in fn['blocks']]
            disabled = kinds[0] == 'disabled'
            traces = []
            outcome = None
            if len(kinds) == 1:
                outcome, tr = outcome_of(kinds[0], options)
                traces = ['{}:0'.format(cn)] if tr else []
            else:
                outcome = 'passed'
                for b, k in enumerate(kinds):
                    oc, tr = outcome_of(k, options)
                    if oc == 'skipped':        # only under the +SKIP default option
                        continue
                    if tr:
                        traces.append('{}:{}'.format(cn, b))
                    if oc == 'failed':
                        outcome = 'failed'
                        break
                if '+SKIP' in set(options):
                    outcome = 'skipped'
            out.append({'id': '{}:0'.format(cn), 'callname': cn, 'num': 0, 'disabled': disabled, 'kind': '+'.join(kinds),
                        'maybe_disabled': kinds[0] == 'disabled_lc',
                        'outcome': outcome, 'traces': traces})
    return out
