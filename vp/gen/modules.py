"""
G3 — module builder (DESIGN.md section 5).  Writes the lines of a Python module
and keeps the *inventory*: for every style which doctests exist (callname,
index), the file line of their first prompt, of every part-opening line, the
line that fails and how — all known by construction, nothing derived from the
code under test.
"""


class Mod(object):
    def __init__(self, D, importable=True, fail_kinds=(None,), allow_async=True):
        self.D = D
        self.lines = []
        self.inv = {'google': [], 'freeform': []}
        self.mustnot = []
        self.uid = 0
        self.features = set()
        self.importable = importable
        self.fail_kinds = list(fail_kinds)
        self.allow_async = allow_async
        self.callnames = []

    def add(self, s):
        self.lines.append(s)
        return len(self.lines)          # 1-based file line number

    def tok(self):
        self.uid += 1
        return self.uid

    # ------------------------------------------------------------------
    def emit_block(self, ind, fail):
        """A few prompt lines at indentation ``ind``.  Returns dict(first, fail_line, exc, prompts=[...])"""
        D = self.D
        k = self.tok()
        prompts = []
        span_start = len(self.lines) + 1
        first = self.add('{}>>> x{} = {}'.format(ind, k, k))
        prompts.append(first)
        pre = D.int(0, 3)
        if pre & 1:
            prompts.append(self.add('{}>>> y{} = [x{},'.format(ind, k, k)))
            self.add('{}...       2]'.format(ind))
            self.features.add('pre:multiline_stmt')
        if pre & 2:
            prompts.append(self.add('{}>>> print(x{}, "a{}")'.format(ind, k, k)))
            self.add('{}{} a{}'.format(ind, k, k))
            prompts.append(self.add("{0}>>> print('l1', {1}); print('l2')".format(ind, k)))
            self.add('{}l1 {}'.format(ind, k))
            self.add('{}l2'.format(ind))
            self.features.add('pre:multiline_want')
        fl = None
        exc = None
        if fail == 'exc':
            fl = self.add('{}>>> raise KeyError({})'.format(ind, k))
            prompts.append(fl)
            exc = 'KeyError'
        elif fail == 'exc_multi':
            prompts.append(self.add('{}>>> z{} = (1 +'.format(ind, k)))
            fl = self.add('{}...      1 / 0 +'.format(ind))
            self.add('{}...      3)'.format(ind))
            exc = 'ZeroDivisionError'
        elif fail == 'exc_multi_new':
            prompts.append(self.add('{}>>> z{} = [1,'.format(ind, k)))
            self.add('{}>>>       2,'.format(ind))
            fl = self.add('{}>>>       {{}}[{}]]'.format(ind, k))
            exc = 'KeyError'
        elif fail == 'want':
            prompts.append(self.add("{}>>> print('a{}')".format(ind, k)))
            fl = self.add('{}b{}'.format(ind, k))
            for j in range(D.int(0, 2)):
                self.add('{}c{}{}'.format(ind, k, j))
            exc = 'GotWantException'
        elif fail == 'want_after_multi':
            prompts.append(self.add('{}>>> print("q{}",'.format(ind, k)))
            self.add('{}...       "r")'.format(ind))
            fl = self.add('{}wrong {}'.format(ind, k))
            exc = 'GotWantException'
        elif fail == 'want_after_bare':
            prompts.append(self.add('{}>>> if True:'.format(ind)))
            self.add("{}...     print('p{}')".format(ind, k))
            self.add('{}...'.format(ind))
            fl = self.add('{}wrong {}'.format(ind, k))
            exc = 'GotWantException'
        elif fail == 'rt_syntax':
            # a SyntaxError raised at run time: its own lineno (1, in the foreign text) is not the failing doctest line
            fl = self.add("{}>>> compile('x = = {}', 'other_file.py', 'exec')".format(ind, k))
            prompts.append(fl)
            exc = 'SyntaxError'
        elif fail == 'bad_directive':
            # a directive that cannot be applied: the statement carrying it is the failing line (nothing of it runs)
            if D.bool():
                prompts.append(self.add('{}>>> # a remark of its own'.format(ind)))
            fl = self.add("{}>>> print('never{}')  # xdoctest: +REQUIRES(nosuchkind:zzz)".format(ind, k))
            prompts.append(fl)
            exc = 'Exception'
        elif fail == 'modfunc':
            fl = self.add('{}>>> vp_module_boom({})'.format(ind, k))
            prompts.append(fl)
            exc = 'ValueError'
        elif fail in ('helper_long', 'helper_short'):
            prompts.append(self.add('{}>>> def h{}(v):'.format(ind, k)))
            n_body = 5 if fail == 'helper_long' else 1
            for j in range(n_body - 1):
                self.add('{}...     v = v + {}'.format(ind, j))
            self.add("{}...     raise IndexError('h{}')".format(ind, k))
            prompts.append(self.add("{}>>> print('mid{}')".format(ind, k)))
            self.add('{}mid{}'.format(ind, k))
            if fail == 'helper_short':
                prompts.append(self.add('{}>>> w{} = (1,'.format(ind, k)))
                self.add('{}...       2)'.format(ind))
            fl = self.add('{}>>> h{}(1)'.format(ind, k))
            prompts.append(fl)
            exc = 'IndexError'
        else:
            prompts.append(self.add("{}>>> print('done{}')".format(ind, k)))
            self.add('{}done{}'.format(ind, k))
        if fail is not None:
            # something after the failure: never reached
            if D.bool():
                prompts.append(self.add("{}>>> print('after{}')".format(ind, k)))
                self.add('{}after{}'.format(ind, k))
                self.features.add('fail:not_last')
            self.features.add('fail:' + fail)
        return {'first': first, 'fail_line': fl, 'exc': exc, 'prompts': prompts, 'span': [span_start, len(self.lines)]}

    # ------------------------------------------------------------------
    def emit_docstring(self, ind, callname, collect=True, layouts=None):
        D = self.D
        layout = D.choice(layouts or ['google', 'freeform', 'none', 'prose', 'google', 'freeform', 'mixed'])
        if layout == 'none':
            return layout
        q = D.choice(['"""', "'''"])
        pre = D.choice(['', '', 'r', 'R', 'u', 'U'])
        if pre:
            self.features.add('docstring_prefix:' + pre)
        shared = D.chance(2, 5)
        nosummary = (not shared) and layout in ('google', 'mixed') and D.chance(1, 4)
        if nosummary:
            # the docstring opens directly with a block tag (no summary line, no Args)
            self.add('{}{}{}'.format(ind, pre, q))
            self.features.add('docstring_without_summary')
        elif shared:
            self.add('{}{}{}Summary line for {}'.format(ind, pre, q, callname))
            self.features.add('docstring_shared_first_line')
        else:
            self.add('{}{}{}'.format(ind, pre, q))
            self.add('{}Summary line for {}'.format(ind, callname))
        g = []
        f_first = None
        f_fail = None
        f_prompts = []
        f_spans = []
        failed_already = False

        def rec_free(blk, use_fail):
            nonlocal f_first, f_fail
            if f_first is None:
                f_first = blk['first']
            if f_fail is None and blk['fail_line'] and use_fail:
                f_fail = (blk['fail_line'], blk['exc'])

        if layout == 'prose':
            self.add('')
            self.add('{}Just prose, no code, but >> and .... appear.'.format(ind))
        if layout in ('google', 'mixed'):
            if not nosummary and D.bool():
                self.add('')
                self.add('{}Args:'.format(ind))
                # (now and then with a character that str.splitlines() breaks at although it does not end a line of the file)
                odd = D.choice(['', '', '', ' such as \x0c or \x1c', ' (\x0b)', ' \x1e\x1d'])
                self.add('{}    a (int): something{}'.format(ind, odd))
                if odd:
                    self.features.add('splitlines_only_separator_in_prose')
            if not nosummary and D.chance(1, 3):
                self.add('')
                self.add('{}Returns:'.format(ind))
                self.add('{}    int: one'.format(ind))
            if not nosummary and D.chance(1, 4):
                # a section whose tag has no body at all
                self.add('')
                self.add('{}{}'.format(ind, D.choice(['Note:', 'Raises:', 'Todo:', 'Args:'])))
                self.features.add('empty_google_section')
            for b in range(D.choice([1, 2, 3, 1, 2, 6])):
                if not (nosummary and b == 0):
                    self.add('')
                tag = D.choice(['Example:', 'Examples:', 'Doctest:', 'Example::', 'Example :'])
                self.add(ind + tag)
                lead = D.chance(1, 4)
                body_line = len(self.lines) + 1
                if lead:
                    if D.bool():
                        self.add('')
                    else:
                        self.add('{}    Leading prose in the block.'.format(ind))
                        self.add('')
                    self.features.add('google_block_leading_nonprompt')
                fail = D.choice(self.fail_kinds)
                blk = self.emit_block(ind + '    ', fail)
                # in freeform style the blocks of one docstring form one doctest: only the first failure is reached,
                # and the prompts after it do not run (still collected)
                g.append(dict(blk, body=body_line, lead=lead))
                rec_free(blk, not failed_already)
                f_spans.append(blk['span'])
                if not failed_already:
                    f_prompts.extend(blk['prompts'])
                failed_already = failed_already or bool(blk['fail_line'])
            if len(g) >= 2:
                self.features.add('docstring_with_2plus_blocks')
        if layout in ('freeform', 'mixed'):
            for b in range(D.int(1, 2)):
                if getattr(self, 'disabled_blocks', False) and D.chance(1, 3):
                    # a block under a freeform skip word: its prompts belong to no doctest, its lines still count
                    self.add('')
                    self.add('{}{}'.format(ind, D.choice(['DisableDoctest:', 'Ignore:', 'Script:', 'SkipDoctest:', 'Benchmark:'])))
                    k = self.tok()
                    self.add('{}    >>> d{} = {}'.format(ind, k, k))
                    for j in range(D.int(0, 2)):
                        self.add("{}    >>> print('disabled {} {}')".format(ind, k, j))
                        self.add('{}    not the output'.format(ind))
                        self.add('{}    >>> e{}{} = ['.format(ind, k, j))
                        self.add('{}    ...     1]'.format(ind))
                    self.features.add('freeform_disabled_block')
                self.add('')
                self.add('{}Some prose before a group.'.format(ind))
                if D.bool():
                    self.add('')
                fail = D.choice(self.fail_kinds) if not failed_already else None
                blk = self.emit_block(ind + D.choice(['', '    ']), fail)
                rec_free(blk, True)
                f_spans.append(blk['span'])
                f_prompts.extend(blk['prompts'])
                failed_already = failed_already or bool(blk['fail_line'])
            self.features.add('freeform_groups')
        if pre in ('', 'u', 'U') and D.chance(1, 5):
            # a non-raw docstring: a backslash continuation *after* all doctest content joins two physical lines, so the
            # docstring value has fewer lines than the literal - the lines before it keep their file positions
            self.add('')
            self.add('{}A trailing note that is continued \\'.format(ind))
            self.add('{}on the next physical line.'.format(ind))
            self.features.add('backslash_continuation_after_doctests')
        self.add('{}{}'.format(ind, q))
        if collect:
            for num, blk in enumerate(g):
                self.inv['google'].append({'callname': callname, 'num': num, 'first': blk['first'], 'body': blk['body'],
                                           'fail_line': blk['fail_line'], 'exc': blk['exc'], 'lead': blk['lead'],
                                           'prompts': blk['prompts'], 'spans': [blk['span']]})
            if f_first is not None:
                self.inv['freeform'].append({'callname': callname, 'num': 0, 'first': f_first, 'body': f_first,
                                             'fail_line': f_fail[0] if f_fail else None,
                                             'exc': f_fail[1] if f_fail else None, 'lead': False, 'prompts': f_prompts,
                                             'spans': f_spans})
            self.callnames.append(callname)
        else:
            self.mustnot.append(callname)
        return layout

    # ------------------------------------------------------------------
    def emit_func(self, ind, name, callname, collect=True, is_async=False, decos=(), nested_ok=True):
        D = self.D
        for d in decos:
            self.add('{}@{}'.format(ind, d))
        if D.chance(1, 3):
            self.add('{}{}def {}(self=None, a=1,'.format(ind, 'async ' if is_async else '', name))
            self.add('{}        b=2):'.format(ind))
            self.features.add('multiline_signature')
        else:
            self.add('{}{}def {}(self=None):'.format(ind, 'async ' if is_async else '', name))
        self.emit_docstring(ind + '    ', callname, collect)
        if nested_ok and D.chance(2, 5):
            if D.bool():
                self.add('{}    def inner_{}():'.format(ind, name))
                self.emit_docstring(ind + '        ', 'inner_{}'.format(name), collect=False, layouts=['google', 'freeform'])
                self.add('{}        pass'.format(ind))
                self.features.add('mustnot:nested_def')
            else:
                self.add('{}    class InnerCls_{}:'.format(ind, name))
                self.emit_docstring(ind + '        ', 'InnerCls_{}'.format(name), collect=False, layouts=['google', 'freeform'])
                self.add('{}        pass'.format(ind))
                self.features.add('mustnot:nested_class_in_def')
        self.add('{}    return 1'.format(ind))
        if D.bool():
            self.add('')
        if is_async:
            self.features.add('async_def')
        if decos:
            self.features.add('decorated')
            if is_async:
                self.features.add('decorated_async')

    def emit_class(self, ind, name):
        D = self.D
        self.add('{}class {}(object):'.format(ind, name))
        self.emit_docstring(ind + '    ', name)
        self.add('{}    attr = 1'.format(ind))
        if getattr(self, 'helper', False) and D.chance(1, 3):
            self.add('{}    ext = staticmethod(imported_fn)'.format(ind))
            self.add('{}    ext2 = imported_fn'.format(ind))
            self.mustnot += [name + '.ext', name + '.ext2']
            self.features.add('class_attr_imported_callable')
        kinds = set()
        for j in range(D.int(1, 5)):
            mk = D.choice(['plain', 'static', 'cls', 'prop', 'async', 'wrapped', 'nestedcls', 'dunder', 'underscore', 'cond', 'propdel'])
            if mk == 'async' and not self.allow_async:
                mk = 'plain'
            mn = 'm{}'.format(j)
            cn = '{}.{}'.format(name, mn)
            mind = ind + '    '
            kinds.add(mk)
            if mk == 'plain':
                self.emit_func(mind, mn, cn)
            elif mk == 'static':
                self.emit_func(mind, mn, cn, decos=('staticmethod',))
            elif mk == 'cls':
                self.emit_func(mind, mn, cn, decos=('classmethod',))
            elif mk == 'async':
                self.emit_func(mind, mn, cn, is_async=True)
            elif mk == 'wrapped':
                if getattr(self, 'helper', False) and D.bool():
                    self.emit_func(mind, mn, cn, decos=('helper_deco',))
                    self.features.add('decorator_from_other_module')
                else:
                    self.emit_func(mind, mn, cn, decos=('deco',))
            elif mk == 'dunder':
                mn = '__vp{}__'.format(j)
                self.emit_func(mind, mn, '{}.{}'.format(name, mn))
            elif mk == 'underscore':
                mn = '_private{}'.format(j)
                self.emit_func(mind, mn, '{}.{}'.format(name, mn))
            elif mk == 'cond':
                if D.bool():
                    self.add('{}if True:'.format(mind))
                    self.emit_func(mind + '    ', mn, cn)
                else:
                    self.add('{}if not os.path:'.format(mind))
                    self.add('{}    pass'.format(mind))
                    self.add('{}else:'.format(mind))
                    self.emit_func(mind + '    ', mn, cn)
                    self.features.add('conditional_else_branch')
                self.features.add('conditional_in_class')
            elif mk in ('prop', 'propdel'):
                self.emit_func(mind, mn, cn, decos=('property',))
                self.add('{}@{}.setter'.format(mind, mn))
                if D.chance(1, 3):
                    # a further attribute-style decorator between the accessor decorator and the def
                    self.add('{}@abc.abstractmethod'.format(mind))
                    self.features.add('setter_with_stacked_dotted_decorator')
                self.add('{}def {}(self, v):'.format(mind, mn))
                self.emit_docstring(mind + '    ', cn + '.setter', collect=False, layouts=['google', 'freeform'])
                self.add('{}    pass'.format(mind))
                self.features.add('mustnot:setter')
                if mk == 'propdel':
                    self.add('{}@{}.deleter'.format(mind, mn))
                    if D.chance(1, 3):
                        self.add('{}@abc.abstractmethod'.format(mind))
                        self.features.add('setter_with_stacked_dotted_decorator')
                    self.add('{}def {}(self):'.format(mind, mn))
                    self.emit_docstring(mind + '    ', cn + '.deleter', collect=False, layouts=['google', 'freeform'])
                    self.add('{}    pass'.format(mind))
                    self.features.add('mustnot:deleter')
                self.features.add('property')
            elif mk == 'nestedcls':
                self.add('{}class Inner{}:'.format(mind, j))
                self.emit_docstring(mind + '    ', 'Inner{}'.format(j), collect=False, layouts=['google', 'freeform'])
                self.add('{}    def im(self):'.format(mind))
                self.emit_docstring(mind + '        ', 'im', collect=False, layouts=['google', 'freeform'])
                self.add('{}        pass'.format(mind))
                self.features.add('mustnot:nested_class')
        if len(kinds) >= 2:
            self.features.add('class_with_2plus_method_kinds')
        if len(kinds) >= 3:
            self.features.add('class_with_3plus_method_kinds')
        self.add('')


HELPER = 'VPHELPERMOD'      # placeholder for the name of a sibling module (replaced when the case is written to disk)

HELPER_SOURCE = '''
import functools


def helper_deco(fn):
    """
    >>> print('helper_deco must not be collected')
    """
    @functools.wraps(fn)
    def wrapper(*a, **k):
        return fn(*a, **k)
    return wrapper


def imported_fn(x=1):
    """
    Example:
        >>> print('imported_fn must not be collected')
    """
    return x


class ImportedCls(object):
    """
    Example:
        >>> print('ImportedCls must not be collected')
    """
    def meth(self):
        """
        >>> print('ImportedCls.meth must not be collected')
        """

    @staticmethod
    def smeth():
        """
        >>> print('ImportedCls.smeth must not be collected')
        """
'''


def build_module(D, importable=True, fail_kinds=(None,), max_items=7, allow_async=True, helper=False, disabled_blocks=False):
    m = Mod(D, importable, fail_kinds, allow_async)
    m.helper = helper
    m.disabled_blocks = disabled_blocks
    for _ in range(max(0, D.int(0, 7) - 4)):
        # files may open with empty / whitespace-only lines (above a licence header, a docstring, the imports)
        m.add(D.choice(['', '', '    ']))
        m.features.add('leading_blank_lines')
    if D.bool():
        m.emit_docstring('', '__doc__', layouts=['google', 'freeform', 'prose', 'mixed'])
        m.features.add('module_docstring')
    m.add('import abc')
    m.add('import functools')
    m.add('import os')
    m.add('from os.path import join')
    m.add('from collections import OrderedDict')
    if helper:
        m.add('import {}'.format(HELPER))
        m.add('from {} import imported_fn, ImportedCls'.format(HELPER))
        m.add('from {} import imported_fn as renamed_fn'.format(HELPER))
        m.add('from {} import helper_deco'.format(HELPER))
        m.add('import contextlib')
        m.mustnot += ['imported_fn', 'ImportedCls', 'ImportedCls.meth', 'ImportedCls.smeth', 'renamed_fn', 'helper_deco']
        m.features.add('imported_names_with_doctests')
    m.add('')
    m.add('')
    m.add('def deco(fn):')
    m.add('    @functools.wraps(fn)')
    m.add('    def wrapper(*a, **k):')
    m.add('        return fn(*a, **k)')
    m.add('    return wrapper')
    m.add('')
    m.add('')
    m.add('def vp_module_boom(x):')
    m.add("    raise ValueError('module code fails {}'.format(x))")
    m.add('')
    m.add('')
    kinds_pool = ['def', 'class', 'def', 'async', 'class', 'deco', 'cond', 'try', 'main', 'asyncdeco', 'with', 'assign',
                  'comment', 'deco2', 'subclass', 'cond_else', 'cond_elif', 'try_else', 'not_main', 'twins']
    for i in range(D.int(2, max_items)):
        kind = D.choice(kinds_pool)
        if kind in ('async', 'asyncdeco') and not allow_async:
            kind = 'def'
        if helper and kind in ('deco', 'deco2') and D.chance(1, 2):
            kind = D.choice(['extdeco', 'ctxmgr'])
        if helper and kind == 'comment' and D.bool():
            kind = 'redefined'
        name = 'item{}'.format(i)
        if kind == 'def':
            m.emit_func('', name, name)
        elif kind == 'async':
            m.emit_func('', name, name, is_async=True)
        elif kind == 'deco':
            m.emit_func('', name, name, decos=('deco',))
        elif kind == 'redefined':
            # the same name is bound twice: the documented definition is shadowed by a later undocumented one, so the
            # live object has no doctest - and reading the source must come to the same conclusion (the later def wins)
            m.emit_func('', name, name, collect=False, nested_ok=False)
            m.add('def {}(self=None):'.format(name))
            m.add('    return 2')
            m.add('')
            m.features.add('redefined_without_docstring')
        elif kind == 'extdeco':
            # a functools.wraps decorator that lives in another module
            m.emit_func('', name, name, decos=('helper_deco',))
            m.features.add('decorator_from_other_module')
        elif kind == 'ctxmgr':
            m.emit_func('', name, name, decos=('contextlib.contextmanager',))
            m.features.add('decorator_from_other_module')
        elif kind == 'deco2':
            m.emit_func('', name, name, decos=('deco', 'deco'))
            m.features.add('decorator_list')
        elif kind == 'asyncdeco':
            m.emit_func('', name, name, is_async=True, decos=('deco',))
        elif kind == 'cond':
            m.add('if True:')
            m.emit_func('    ', name, name)
            m.features.add('conditional')
        elif kind == 'cond_else':
            # the definition sits in the else branch (the one that executes)
            m.add('if not os.path:')
            m.add('    pass')
            m.add('else:')
            m.emit_func('    ', name, name)
            m.features.add('conditional')
            m.features.add('conditional_else_branch')
        elif kind == 'cond_elif':
            m.add('if not os.path:')
            m.add('    pass')
            m.add('elif os.path:')
            m.emit_func('    ', name, name)
            m.add('else:')
            m.add('    pass')
            m.features.add('conditional')
            m.features.add('conditional_else_branch')
        elif kind == 'not_main':
            # the opposite of the main guard: this block does execute on import
            m.add(D.choice(["if __name__ != '__main__':", "if '__main__' != __name__:"]))
            m.emit_func('    ', name, name)
            m.features.add('conditional')
            m.features.add('not_main_guard')
        elif kind == 'twins':
            # two distinct callables whose docstrings are byte for byte the same
            for nm in (name, name + '_twin'):
                m.add('def {}(self=None):'.format(nm))
                m.add('    """')
                m.add('    A summary shared by two functions.')
                m.add('')
                m.add('    Example:')
                first = m.add("        >>> print('twin {}')".format(i))
                m.add('        twin {}'.format(i))
                m.add('    """')
                m.add('    return 1')
                m.add('')
                ent = {'callname': nm, 'num': 0, 'first': first, 'body': first, 'fail_line': None, 'exc': None, 'lead': False,
                       'prompts': [first], 'spans': [[first, first + 1]]}
                m.inv['google'].append(dict(ent))
                m.inv['freeform'].append(dict(ent))
                m.callnames.append(nm)
            m.features.add('identical_docstrings')
        elif kind == 'try_else':
            m.add('try:')
            m.add('    pass')
            m.add('except Exception:')
            m.add('    pass')
            m.add('else:')
            m.emit_func('    ', name, name)
            m.features.add('conditional')
            m.features.add('conditional_else_branch')
        elif kind == 'try':
            m.add('try:')
            m.emit_func('    ', name, name)
            m.add('except Exception:')
            m.add('    pass')
            m.features.add('conditional')
        elif kind == 'with':
            m.add('with open(os.devnull) as _fh{}:'.format(i))
            m.emit_func('    ', name, name)
            m.features.add('conditional')
        elif kind == 'main':
            m.add("if __name__ == '__main__':")
            m.emit_func('    ', name, name, collect=False)
            m.features.add('mustnot:main_guard')
        elif kind == 'class':
            m.emit_class('', name)
        elif kind == 'subclass':
            m.emit_class('', name)
            m.add('class Sub{}({}):'.format(i, name))
            m.add('    pass')
            m.add('')
            m.features.add('subclass_without_docstring')
        elif kind == 'assign':
            m.add('value{} = lambda x: x + {}'.format(i, i))
            m.add('CONST{} = {}'.format(i, i))
            m.add('')
        elif kind == 'comment':
            m.add('# a comment about nothing {}'.format(i))
            m.add('')
    return m


def case_of(m):
    return {'lines': m.lines, 'inv': m.inv, 'mustnot': m.mustnot, 'features': sorted(m.features),
            'callnames': m.callnames}


def expected_inventory(case, style):
    inv = case['inv']
    if style == 'auto':
        gnames = {e['callname'] for e in inv['google']}
        return list(inv['google']) + [e for e in inv['freeform'] if e['callname'] not in gnames]
    return list(inv[style])


def decoy_lines(lines):
    """an earlier version of the file: the same text pushed down below a header, plus a function that is gone afterwards"""
    return ['# an earlier version of this file', '', 'def vp_earlier_version_only():', '    """', '    >>> print(1)', '    1', '    """', '', ''] + list(lines)
