"""Generates /verif/MANIFEST.json from the table below:  python -m vp.manifest"""
import json
import os

HERE = os.path.dirname(os.path.dirname(os.path.abspath(__file__)))

# id: (design section, technique, level text, level note)
CHECKS = {
    'C06': ('6.6',
            "exhaustive enumeration of all small (got, want) pairs + Hypothesis derived pairs; differential "
            "against a backtracking-regex definition of the '...' wildcard",
            "Every pair over {a,b,space,newline,'.'} up to the length bound (quick: 3 906 gots x 478 wants; thorough: "
            "19 531 x ~21 000) is compared with an independent definition, then Hypothesis pairs up to 60+ characters "
            "over a wider alphabet, and end-to-end doctest runs in which the statement prints, echoes a value or both with "
            "+/-ELLIPSIS given as a directive (also on states whose flag was set by item assignment). Exhaustive below the bound, sampled above it: a bounded-exhaustive exploration, "
            "the right level for a pure string function with an exact reference.",
            "Trusted: CPython re (fullmatch/DOTALL) as the definition's executor; the reading of runs of >= 4 dots is "
            "left open (any reading accepted). Absence beyond the bound is not established."),
    'C05': ('6.5',
            "exhaustive enumeration of small (got, want) pairs x all 32 flag settings against a reference normaliser "
            "written from the statement + metamorphic laws (strict exactness, monotonicity, whitespace-only leniency); "
            "Hypothesis token sequences beyond the bound; end-to-end doctest runs",
            "All pairs over two 7-letter alphabets up to length 3 (quick) / 4 (thorough) under all 32 settings of the five "
            "flags, compared with a reference and with three laws that involve no model; Hypothesis token sequences "
            "(ANSI codes, <BLANKLINE>, prefixed literals, two- and three-wildcard wants over a small word alphabet) beyond the bound; sampled end-to-end doctests. Bounded-exhaustive "
            "exploration of a pure function.",
            "Trusted: the reference normaliser (vp/ref/normaliser.py, self-tested) and CPython re/str. Cases where the "
            "statement admits several readings (classes a-e) are counted and not asserted; carriage returns are outside "
            "the domain."),
    'C01': ('6.1',
            "Hypothesis-generated programs (statement grammar x docstring layouts); differential against reference "
            "execution of the de-prompted program by CPython: trace of executed statements, stdout, bindings, attribution",
            "Tens of thousands of generated programs (about 60 statement kinds: compound, decorated, multi-line, async, "
            "comments, unprefixed string lines, stale sys.stdout references, harmless inline directives) in random prompt styles, indentations (incl. tabs), want placements and "
            "separators are run by xdoctest and by CPython - a quarter of them as the docstring of a function in a module file whose "
            "globals carry the names the doctest binds; every statement must run exactly once, in order, with the "
            "same stdout and final bindings. Randomised exploration with shrinking; unbounded input space, so sampled.",
            "Trusted: CPython compile/exec as ground truth, the generator's bookkeeping (self-tested per statement kind). "
            "The REPL echo of a value-bearing expression followed by a want is accepted either way. Inline directives "
            "are C04's domain."),
}

NOT_BUILT_REASON = 'check under construction in this round: not claimed until it has been built and run against its mutants'


def build():
    with open(os.path.join(HERE, 'properties.jsonl')) as f:
        props = [json.loads(line) for line in f if line.strip()]
    checks = []
    na = []
    for p in props:
        pid = p['id']
        modpath = os.path.join(HERE, 'vp', 'props', pid.lower() + '.py')
        meta = None
        if os.path.exists(modpath):
            if pid in CHECKS:
                meta = CHECKS[pid]
            else:
                import importlib
                mod = importlib.import_module('vp.props.' + pid.lower())
                if getattr(mod, 'LEVEL_TEXT', None):
                    meta = (mod.DESIGN_REF, mod.TECHNIQUE, (mod.LEVEL_TEXT + ' ' + getattr(mod, 'LEVEL_ADDED', '')).strip(), mod.LEVEL_NOTE)
        if meta:
            sec, tech, text, note = meta
            checks.append({
                'property_id': pid,
                'quick_cmd': './bin/check {} quick'.format(pid),
                'thorough_cmd': './bin/check {} thorough'.format(pid),
                'evidence_file': 'evidence/{}.json'.format(pid),
                'replay_cmd_template': './bin/check {} quick --replay {{path}}'.format(pid),
                'engine': 'vp',
                'level_claimed': {'category': 'exploration', 'text': text, 'design_ref': 'DESIGN.md section ' + sec},
                'level_note': note,
                'technique': tech,
            })
        else:
            na.append({'property_id': pid, 'reason': NOT_BUILT_REASON})
    man = {
        'version': 1,
        'setup_cmd': './bin/setup',
        'hooks': {
            'guard': 'XDOCTEST_VERIF',
            'enable': 'no hook is needed: every observation goes through public API and objects the harness injects '
                      '(a TRACE list / dict subclass placed in DocTest.global_namespace); checks import xdoctest '
                      'straight from /repo/src (PYTHONPATH), nothing is built',
            'baseline_off_cmd': 'cd /repo && /venv/bin/python -m pytest -ra -q -p no:cacheprovider --timeout=900 '
                                '--continue-on-collection-errors',
            'source_commits': [],
            'add_only': True,
        },
        'engines': [{
            'name': 'vp',
            'path': 'vp/',
            'serves_properties': [c['property_id'] for c in checks],
            'kind_free_text': 'property-based testing: Hypothesis-driven generators + bounded exhaustive enumeration, '
                              'sharded over 16 processes, explicit reference oracles, shrunk JSON replay files',
        }],
        'checks': checks,
        'not_applicable': na,
        'notes': 'See DESIGN.md. Repairs of genuine defects are the unguarded "fix:" commits in /repo listed in '
                 'known_findings.json (status fixed). Sensitivity results: sensitivity/results.json; seeded '
                 'changes written by independent sub-agents: seeded/.',
    }
    with open(os.path.join(HERE, 'MANIFEST.json'), 'w') as f:
        json.dump(man, f, indent=1)
    return man


if __name__ == '__main__':
    m = build()
    import jsonschema
    with open('/root/.vp/MANIFEST.schema.json') as f:
        jsonschema.validate(m, json.load(f))
    print('MANIFEST.json: {} checks, {} not claimed'.format(len(m['checks']), len(m['not_applicable'])))
