"""Mutants for the properties other than C06 (see vp/mutants.py)."""


def register(M):
    # ---- C05 ---------------------------------------------------------------
    M('K2', ['C05'], 'checker.py',
      'TRAILING_WS = re.compile(r"[ \\t]*$", re.UNICODE | re.MULTILINE)',
      'TRAILING_WS = re.compile(r"[ ]*$", re.UNICODE | re.MULTILINE)',
      'trailing-whitespace regex no longer covers tabs')
    M('K3', ['C05'], 'checker.py',
      'unicode_literal_re = re.compile(r"(\\W|^)[uU]([rR]?[\\\'\\"])", re.UNICODE)',
      'unicode_literal_re = re.compile(r"()[uU]([rR]?[\\\'\\"])", re.UNICODE)',
      'prefix stripping without the word-boundary guard')
    M('C05_ansi', ['C05'], 'checker.py',
      "        got = utils.strip_ansi(got)\n", "        pass\n",
      'ANSI stripping of the got dropped')
    M('C05_rstrip', ['C05'], 'checker.py',
      "    want = want.rstrip()\n    got = got.rstrip()\n", "    got = got.rstrip()\n",
      'want.rstrip() dropped')
    M('C05_gotonly', ['C05'], 'checker.py',
      "        got = ' '.join(got.split())\n        want = ' '.join(want.split())\n",
      "        got = ' '.join(got.split())\n",
      'whitespace collapse applied to got only')
    # (a mutant restricting the IGNORE_WHITESPACE regex to blanks is equivalent: the preceding
    #  ' '.join(split()) already turned every whitespace run into one blank)
    M('C05_nr_always', ['C05'], 'checker.py',
      "    if runstate['NORMALIZE_REPR']:\n        def norm_repr", "    if True:\n        def norm_repr",
      'NORMALIZE_REPR applied when off')
    M('C05_dab_inv', ['C05'], 'checker.py',
      "    if not runstate['DONT_ACCEPT_BLANKLINE']:\n        want = remove_blankline_marker(want)\n\n    # always",
      "    if runstate['DONT_ACCEPT_BLANKLINE']:\n        want = remove_blankline_marker(want)\n\n    # always",
      'DONT_ACCEPT_BLANKLINE inverted')
    M('C05_F8', ['C05'], 'checker.py',
      "if len(a) >= 2 and a.startswith(q) and a.endswith(q):", "if a.startswith(q) and a.endswith(q):",
      'reverse of fix F8 (lone quote is a quoted string)')
    M('C05_F12', ['C05'], 'checker.py',
      "                if a_is_want:\n                    return _check_match(b, a_, runstate)\n",
      "                if a_is_want:\n                    return _check_match(a_, b, runstate)\n",
      'reverse of fix F12 (roles of got and want swapped when unquoting the want)')
    M('C05_F13', ['C05'], 'checker.py',
      "                        if runstate['NORMALIZE_WHITESPACE']:\n", "                        if False:\n",
      'reverse of fix F13 (no strip after unquote)')
    M('C05_bytes', ['C05'], 'checker.py',
      "        got = remove_prefixes(bytes_literal_re, got)\n", "",
      'bytes prefix not removed from got')

    # ---- C01 ---------------------------------------------------------------
    M('P4', ['C01', 'C13'], 'parser.py',
      "        string = string.expandtabs()\n", "",
      'tab expansion dropped (tab-indented docstrings lose their doctest)')
    M('C01_deco', ['C04'], 'parser.py',
      "                if hasattr(node, 'decorator_list') and node.decorator_list:\n                    lineno = node.decorator_list[0].lineno - 1",
      "                if False:\n                    lineno = node.decorator_list[0].lineno - 1",
      'decorator adjustment of PS1 line numbers dropped')
    M('C01_dupstdout2', ['C01'], 'doctest_example.py',
      "                    self.logged_evals[partx] = got_eval\n                    self.logged_stdout[partx] = cap.text\n\n        if self.exc_info is None:",
      "                    self.logged_evals[partx] = got_eval\n                    self.logged_stdout[partx] = cap.cap_stdout.getvalue()\n\n        if self.exc_info is None:",
      'recorded stdout of a part is the whole buffer (duplication)')
    M('C01_pos', ['C01'], 'utils/util_stream.py',
      "        self._pos = self.cap_stdout.tell()\n", "",
      'CaptureStdout read position not advanced')
    M('C01_F10', ['C02'], 'parser.py',
      "            final_lines = exec_source_lines[ps1_linenos[-1]:] if ps1_linenos else exec_source_lines\n",
      "            final_lines = exec_source_lines\n",
      'reverse of fix F10 (semicolon anywhere in the chunk forces single mode)')
    M('C01_F11', ['C01'], 'parser.py',
      "(mid[0] == 'dsrc' and right[0] == 'dcnt' and\n                                     mid[1].lstrip().startswith('>>>'))",
      "(mid[0] == 'dsrc' and right[0] == 'dcnt')",
      'reverse of fix F11 (unprefixed string line followed by ... line starts a group)')
    M('C01_complete', ['C01'], 'parser.py',
      "                    if any(\"\'\'\'\" in s or \'\"\"\"\' in s for s in source_parts):",
      "                    if any(\"\'\'\'\" in s for s in source_parts):",
      'triple-quote rule for unprefixed lines only recognises single-quote triples')
    M('C01_u4', ['C01'], 'parser.py',
      "            if prefix.strip() not in {'>>>', '...', ''}:  # nocover",
      "            if prefix.strip() not in {'>>>', '...'}:  # nocover",
      'blank-prefixed continuation lines are kept whole (four columns too many)')
    M('C01_ns', ['C01'], 'doctest_example.py',
      "                                exec(code, test_globals)\n", "                                exec(code, dict(test_globals))\n",
      'exec parts run in a copy of the namespace (bindings lost between parts)')

    # ---- C02 ---------------------------------------------------------------
    M('E2', ['C02'], 'doctest_example.py',
      "                if not part.has_any_code():\n", "                if False:\n",
      'comment-only doctest no longer skipped (passes)')
    M('E16', ['C02'], 'doctest_example.py',
      "                            self._unmatched_stdout.append(cap.text)", "                            self._unmatched_stdout = [cap.text]",
      'only the last unmatched output is kept')
    M('M28', ['C02'], 'doctest_example.py',
      "                except checker.GotWantException:\n                    # When the \"got\", doesn't match the \"want\"\n                    self.exc_info = sys.exc_info()\n                    if on_error == 'raise':\n                        raise\n                    break",
      "                except checker.GotWantException:\n                    # When the \"got\", doesn't match the \"want\"\n                    self.exc_info = sys.exc_info()\n                    if on_error == 'raise':\n                        raise\n                    pass",
      'got/want failure recorded but execution continues')
    M('K4', ['C02'], 'checker.py',
      "            try:\n                got = repr(got_eval)\n            except Exception as ex:",
      "            try:\n                got = str(got_eval)\n            except Exception as ex:",
      'str() instead of repr() of the value')
    M('C02_noclear', ['C02'], 'doctest_example.py',
      "                            # Clear unmatched output when a check passes\n                            self._unmatched_stdout = []",
      "                            # Clear unmatched output when a check passes\n                            pass",
      'unmatched output not cleared after a match')
    M('C02_trailing', ['C02'], 'doctest_part.py',
      "            got_ = ''.join(trailing_gots[-i:])", "            got_ = ''.join(trailing_gots[-1:])",
      'only the last output is tried against the want')
    M('C02_failedpart', ['C02'], 'doctest_example.py',
      "                self.failed_part = part  # Assume part will fail (it may not)",
      "                self.failed_part = self._parts[0]  # Assume part will fail (it may not)",
      'failure attributed to the first part')
    M('C02_noevalfallback', ['C02'], 'checker.py',
      "                got = got_repr\n                flag = check_output(got, want, runstate)\n",
      "                got = got_repr\n                flag = False\n",
      'value fallback removed when the statement also printed')
    M('C02_F6', ['C02', 'C20'], 'checker.py',
      "                if not flag and got_eval is not None:", "                if False:",
      'reverse of fix F6 (stdout followed by the echoed value not accepted)')
    M('C02_wantline', ['C02', 'C08'], 'doctest_example.py',
      "                offset += self.failed_part.n_exec_lines + 1", "                offset += self.failed_part.n_exec_lines",
      'want line off by one')
    M('C02_skipaspass', ['C02', 'C10'], 'doctest_example.py',
      "        passed = not failed and not skipped", "        passed = not failed",
      'skipped doctests also count as passed')

    # ---- C03 ---------------------------------------------------------------
    M('C03_swallow', ['C03'], 'checker.py',
      "        # Reraise the error if the want message is formatted like an exception\n        raise\n",
      "        # Reraise the error if the want message is formatted like an exception\n        return True\n",
      "non-traceback want hides the exception (bare raise -> return True)")
    M('C03_nowantguard', ['C03'], 'doctest_example.py',
      "                    except Exception:\n                        if part.want:\n",
      "                    except Exception:\n                        if part.want or True:\n",
      'exception consults the want even when the part has none')
    M('C03_ied_msg', ['C03'], 'checker.py',
      "        exc_want1 = _strip_exception_details(exc_want)\n", "        exc_want1 = exc_want\n",
      'IGNORE_EXCEPTION_DETAIL still compares the message of the want')
    M('C03_dotted', ['C03'], 'checker.py',
      "    i = msg.rfind('.', 0, end)\n    if i >= 0:\n        start = i + 1\n", "",
      '_strip_exception_details keeps the dotted module path')
    M('C03_breakafter', ['C03'], 'doctest_example.py',
      "                            checker.check_exception(exc_got, want, runstate)\n",
      "                            checker.check_exception(exc_got, want, runstate)\n                            raise exceptions.ExitTestException()\n",
      'the doctest stops silently after an expected exception')
    M('C03_ied_always', ['C03'], 'checker.py',
      "    if not flag and runstate['IGNORE_EXCEPTION_DETAIL']:", "    if not flag:",
      'exception detail always ignored')
    M('C03_hdr', ['C03'], 'checker.py',
      "        |   innermost\\ last\n", "",
      "'Traceback (innermost last):' header no longer recognised")
    M('C03_typeonly', ['C03'], 'checker.py',
      "    flag = check_output(exc_got, exc_want, runstate)\n    # print('exc_want",
      "    flag = check_output(exc_got, exc_want, runstate) or exc_got.split(':')[1:] == exc_want.split(':')[1:]\n    # print('exc_want",
      'a wrong exception type passes when the messages agree')

    # (not kept: 'explicit ... lines may become PS1 lines' and 'inline detection looks at the last line only' are
    #  unobservable for well-formed docstrings, where a statement never starts on a '...' line)
    # ---- C04 ---------------------------------------------------------------
    M('C04_noclear', ['C04'], 'directive.py',
      "        # Clear the previous inline state\n        self._inline_state.clear()\n", "        # Clear the previous inline state\n",
      'inline overlay not cleared at the next update')
    M('C04_leak_skip', ['C04'], 'directive.py',
      "                elif action == 'assign':\n                    state[key] = value\n",
      "                elif action == 'assign':\n                    state[key] = value\n                    if key == 'SKIP' and not value:\n                        self._global_state[key] = value\n",
      'inline -SKIP also written to the persistent state')
    M('C04_and', ['C04'], 'doctest_example.py',
      "                if runstate['SKIP'] or len(runstate['REQUIRES']) > 0:", "                if runstate['SKIP'] and len(runstate['REQUIRES']) > 0:",
      'skip decision uses and instead of or')
    M('C04_nobreakafter', ['C04'], 'parser.py',
      "                if directives[0].inline:\n                    if s2 is not None:\n                        break_linenos.append(s2)",
      "                if directives[0].inline:\n                    if s2 is not None:\n                        pass",
      'no part break after an inline directive')
    M('C04_strings', ['C04'], 'directive.py',
      "        for comment in static.extract_comments(text):",
      "        for comment in [ln[ln.index('#'):] for ln in text.splitlines() if '#' in ln]:",
      'directive extraction scans string literals')
    M('C04_default', ['C04'], 'doctest_example.py',
      "        runstate = self._runstate = directive.RuntimeState(default_state)", "        runstate = self._runstate = directive.RuntimeState()",
      'default options ignored')
    M('C04_F2', ['C04'], 'directive.py',
      "                    if key not in state:\n                        # An inline directive starts from a copy of the\n                        # persistent set so it only impacts this part.\n                        state[key] = set(self._global_state[key])\n",
      "                    if key not in state:\n                        state[key] = set()\n",
      'inline REQUIRES overlay starts from an empty set (persistent requirements forgotten for that statement)')
    M('C04_req_shared', ['C04'], 'directive.py',
      "                        state[key] = set(self._global_state[key])\n", "                        state[key] = self._global_state[key]\n",
      'inline REQUIRES overlay shares the persistent set (inline effect leaks)')

    # ---- C13 ---------------------------------------------------------------
    M('C13_le', ['C13'], 'parser.py',
      "                elif line_indent < state_indent:\n                    curr_state = TEXT\n                else:\n                    curr_state = WANT",
      "                elif line_indent <= state_indent:\n                    curr_state = TEXT\n                else:\n                    curr_state = WANT",
      'a want line at the indentation of the source is taken as text')
    M('C13_blank', ['C13'], 'parser.py',
      "                # blank lines terminate wants\n                if len(strip_line) == 0:\n                    curr_state = TEXT",
      "                # blank lines terminate wants\n                if False:\n                    curr_state = TEXT",
      'a blank line no longer ends a want')
    M('C13_lineno', ['C13', 'C08'], 'parser.py',
      "                lineno += len(slines) + len(wlines)", "                lineno += len(slines)",
      'running line counter ignores want lines')
    M('C13_dcnt', ['C13'], 'parser.py',
      "                        if prev_state == DCNT:\n                            # Hack to fix continuation issue\n                            curr_state = DCNT",
      "                        if False:\n                            # Hack to fix continuation issue\n                            curr_state = DCNT",
      "bare '...' after a continuation line is a want")
    M('C13_srcdedent', ['C13'], 'parser.py',
      "                if len(strip_line) == 0 or line_indent < state_indent:\n                    curr_state = TEXT",
      "                if len(strip_line) == 0:\n                    curr_state = TEXT",
      'a de-indented line after source is taken as a want')
    M('F18_splitlines', ['C08', 'C13'], 'parser.py',
      "    lines = re.split('\\\\r\\\\n|\\\\n|\\\\r', text)\n    if lines and lines[-1] == '':\n        lines.pop()\n    return lines",
      "    return text.splitlines()",
      'the docstring is split with str.splitlines() again (finding F18 undone)')
    M('C13_minindent', ['C13'], 'parser.py',
      "            string = '\\n'.join([ln[min_indent:] for ln in _splitlines(string)])",
      "            string = '\\n'.join([ln.lstrip() if ln[:min_indent].strip() == '' and not ln.lstrip().startswith(('>', '.')) else ln[min_indent:] for ln in _splitlines(string)])",
      'text lines lose all their indentation')
    M('C13_wantprompt', ['C13'], 'parser.py',
      "                elif _hasprefix(line.strip(), ('>>>',)):\n                    curr_state = DSRC\n                elif line_indent < state_indent:",
      "                elif _hasprefix(line.strip(), ('>>>', '...')):\n                    curr_state = DSRC\n                elif line_indent < state_indent:",
      "a want line starting with '...' is taken as source")

    # ---- C20 ---------------------------------------------------------------
    M('C20_single', ['C20'], 'parser.py',
      "                if all(_hasprefix(s, ('...',)) for s in source_lines[1:]):\n                    mode_hint = 'single'",
      "                if all(_hasprefix(s, ('...',)) for s in source_lines[1:]):\n                    pass",
      'classic examples no longer compiled in single mode')
    M('C20_group', ['C20'], 'parser.py',
      "            if left[0] != mid[0] or (mid[0] == 'dsrc' and right[0] == 'dcnt' and\n                                     mid[1].lstrip().startswith('>>>')):",
      "            if left[0] != mid[0]:",
      'classic examples are not isolated in their own group')
    M('C20_prefix', ['C20'], 'directive.py',
      "    r'x?doctest:\\s*' + named('style2', '.*'),", "    r'xdoctest:\\s*' + named('style2', '.*'),",
      "'doctest:' no longer accepted as directive prefix")
    M('C20_blankline', ['C20', 'C05'], 'checker.py',
      "        want = remove_blankline_marker(want)\n\n    # always", "        pass\n\n    # always",
      '<BLANKLINE> handling dropped')

    # ---- C18 ---------------------------------------------------------------
    M('C18_wantdrop', ['C18'], 'doctest_part.py',
      "            for line in want_text.splitlines():\n                if want:\n                    want_lines.append(want_fmt.format(line=line))",
      "            for line in want_text.splitlines()[:1]:\n                if want:\n                    want_lines.append(want_fmt.format(line=line))",
      'only the first want line is displayed')
    M('C18_offset', ['C18'], 'doctest_part.py',
      "            start = startline + self.line_offset\n", "            start = startline\n",
      'displayed numbers lose the part offset')
    M('C18_orig', ['C18'], 'doctest_part.py',
      "                src_text = '\\n'.join(self.orig_lines)", "                src_text = utils.indent(self.source, '>>> ')",
      'continuation prompts lost in the displayed source (modes change on re-parse)')
    M('C18_ndigits', ['C18'], 'utils/util_str.py',
      "    src_fmt = '{count:{n_digits}d} {line}'", "    src_fmt = '{count:{n_digits}d}{line}'",
      'no separator between number column and text')
    M('C18_fileline', ['C18'], 'doctest_example.py',
      "            if offset_linenos:\n                startline = self.lineno\n", "            if offset_linenos:\n                startline = self.lineno + 1\n",
      'file-relative numbers off by one')
    M('C18_wantflag', ['C18'], 'doctest_part.py',
      "        if want_lines:\n            part_text += '\\n' + want_text", "        if self.want:\n            part_text += '\\n' + self.want",
      'want=False still shows the want')

    # ---- C14 ---------------------------------------------------------------
    M('C14_narrow', ['C14'], 'parser.py',
      "            all_parts = list(self._package_groups(grouped_lines))\n        except Exception as orig_ex:",
      "            all_parts = list(self._package_groups(grouped_lines))\n        except SyntaxError as orig_ex:",
      'parse wraps only SyntaxError into DoctestParseError')
    M('C14_reraise', ['C14'], 'core.py',
      "        elif isinstance(ex, exceptions.DoctestParseError):\n            pass\n        else:\n            raise",
      "        elif isinstance(ex, exceptions.DoctestParseError):\n            raise\n        else:\n            raise",
      'parse_docstr_examples re-raises DoctestParseError')
    M('C14_nowarn', ['C14'], 'core.py',
      "        print('msg = {}'.format(msg))\n        warnings.warn(msg)\n", "        print('msg = {}'.format(msg))\n",
      'no warning for a docstring that does not parse')
    M('C14_module', ['C14'], 'core.py',
      "    n_parsed = 0\n    try:\n        if parser_kw is None:", "    n_parsed = 0\n    if '>>>' in docstr and docstr.count('(') != docstr.count(')') and 'Example' not in docstr:\n        raise SyntaxError('unbalanced')\n    try:\n        if parser_kw is None:",
      'an eager syntax check outside the try block lets SyntaxError escape')
    M('C14_hang', ['C14'], 'parser.py',
      "        string = string.expandtabs()\n", "        string = string.expandtabs()\n        while '\\x0c' in string and 'lambda' in string:\n            pass\n",
      'parsing never finishes for texts holding a form feed and a lambda (artificial hang for the watchdog)')

    # ---- C07 ---------------------------------------------------------------
    M('M7', ['C07'], 'static_analysis.py',
      "        if self._current_classname is None:\n            callname = node.name\n            self._current_classname = callname\n            docstr, doclineno, doclineno_end = self._get_docstring(node)",
      "        if True:\n            callname = node.name\n            self._current_classname = callname\n            docstr, doclineno, doclineno_end = self._get_docstring(node)",
      'nested classes are registered and descended into')
    M('S4', ['C07'], 'static_analysis.py',
      "                        node.test.comparators[0].value == '__main__',\n                    ]):\n                        # Ignore main block\n                        return",
      "                        node.test.comparators[0].value == '__main__',\n                    ]):\n                        # Ignore main block\n                        pass",
      'code under the __main__ guard is collected')
    M('C07_generic', ['C07'], 'static_analysis.py',
      "        self.calldefs[callname] = calldef\n\n        self._finish_queue.append(calldef)\n\n    def visit_AsyncFunctionDef",
      "        self.calldefs[callname] = calldef\n        self.generic_visit(node)\n\n        self._finish_queue.append(calldef)\n\n    def visit_AsyncFunctionDef",
      'visit_FunctionDef descends into function bodies (nested functions leak)')
    M('C07_setter', ['C07'], 'static_analysis.py',
      "                    if decor.attr == 'setter':\n                        # callname = callname + '.fset'\n                        return",
      "                    if decor.attr == 'setter':\n                        # callname = callname + '.fset'\n                        pass",
      'property setters are collected (overwriting the getter)')
    M('C07_classreset', ['C07'], 'static_analysis.py',
      "            self.generic_visit(node)\n            self._current_classname = None\n", "            self.generic_visit(node)\n",
      '_current_classname not reset after a class')
    M('C07_noinit', ['C07'], 'static_analysis.py',
      "            else:\n                # Stop recursing when we are out of the package\n                del dnames[:]",
      "            else:\n                # Stop recursing when we are out of the package\n                pass",
      'package walk keeps descending below a directory without __init__.py')
    M('C07_num', ['C07'], 'core.py',
      "    for num, (type, (docsrc, offset)) in enumerate(example_blocks):", "    for num, (type, (docsrc, offset)) in enumerate(example_blocks, start=len(blocks) - len(blocks)):\n        num = num if callname != '__doc__' else num + 1",
      'google index of the module docstring starts at 1')
    M('C07_auto', ['C07'], 'core.py',
      "    # no google style tests were found, parse in freeform\n    if n_found == 0:", "    # no google style tests were found, parse in freeform\n    if n_found <= 1:",
      'auto also adds the freeform doctest when exactly one google block exists')
    M('C07_F3', ['C07', 'C16'], 'static_analysis.py',
      "    def visit_AsyncFunctionDef(self, node):", "    def visit_AsyncFunctionDef_disabled(self, node):",
      'reverse of fix F3 (async def not collected, nested defs leak)')
    M('C07_doctesttag', ['C07'], 'core.py',
      "    example_tags = ('Example', 'Doctest', 'Script', 'Benchmark')", "    example_tags = ('Example', 'Script', 'Benchmark')",
      "'Doctest:' blocks are no longer collected")
    M('C07_lastblock', ['C07'], 'docstr/docscrape_google.py',
      "    for k, lines in groups_.items():", "    for k, lines in list(groups_.items())[:6]:",
      'at most six groups of a google docstring are kept')

    # ---- C16 ---------------------------------------------------------------
    M('C16_defmod', ['C16'], 'dynamic_analysis.py',
      "        if getattr(item, '__module__', None) == target_modname:\n            flag = True\n        elif",
      "        if getattr(item, '__module__', None) is not None:\n            flag = True\n        elif",
      'is_defined_by_module no longer compares __module__ (imported callables are collected dynamically)')
    M('C16_nested', ['C16'], 'dynamic_analysis.py',
      "                if isinstance(subval, valid_func_types):\n                    if not _recurse(subval, module):",
      "                if isinstance(subval, valid_func_types + (type,)):\n                    if not _recurse(subval, module):",
      'dynamic walk yields nested classes')
    M('C16_fset', ['C16'], 'dynamic_analysis.py',
      "                        item = subval.fget\n", "                        item = subval.fset or subval.fget\n",
      'property unwrapped through fset')
    M('C16_static_sm', ['C16', 'C07'], 'static_analysis.py',
      "                    if decor.id == 'property':\n                        # likely a getter property\n                        # should we distinguish getters?\n                        # callname = callname + '.fget'\n                        pass",
      "                    if decor.id == 'staticmethod' and len(node.decorator_list) > 0 and node.body and len(node.body) > 2:\n                        return",
      'static visitor drops static methods with more than two body statements')
    M('C16_nocm', ['C16'], 'dynamic_analysis.py',
      "        classmethod,\n        staticmethod,\n        property,\n    )", "        staticmethod,\n        property,\n    )",
      'dynamic walk ignores classmethods')
    M('C16_dunder_meth', ['C16'], 'dynamic_analysis.py',
      "                if isinstance(subval, valid_func_types):\n                    if not _recurse(subval, module):",
      "                if isinstance(subval, valid_func_types) and not subkey.startswith('__'):\n                    if not _recurse(subval, module):",
      'dynamic walk skips dunder methods')

    # ---- C17 ---------------------------------------------------------------
    M('C17_isvalid', ['C17'], 'utils/util_import.py',
      "            if not exists(join(subdir, '__init__.py')):\n                return False", "            if not exists(subdir):\n                return False",
      '__init__ chain check removed')
    M('C17_prec', ['C17'], 'utils/util_import.py',
      "        modpath = join(dpath, _fname_we)\n        if exists(modpath):\n            if isfile(join(modpath, '__init__.py')):\n                if _isvalid(modpath, dpath):\n                    return modpath\n",
      "        for fname in candidate_fnames[:1]:\n            modpath = join(dpath, fname)\n            if isfile(modpath):\n                if _isvalid(modpath, dpath):\n                    return modpath\n        modpath = join(dpath, _fname_we)\n        if exists(modpath):\n            if isfile(join(modpath, '__init__.py')):\n                if _isvalid(modpath, dpath):\n                    return modpath\n",
      'a source file takes precedence over a package directory of the same name')
    M('C17_split', ['C17'], 'utils/util_import.py',
      "    while exists(join(dpath, '__init__.py')):\n        dpath, dname = split(dpath)",
      "    while exists(join(dpath, '__init__.py')) and len(_relmod_parts) < 3:\n        dpath, dname = split(dpath)",
      'split_modpath stops after two package levels')
    M('C17_initname', ['C17'], 'utils/util_import.py',
      "    modpath_ = normalize_modpath(modpath_, hide_init=hide_init,\n                                 hide_main=hide_main)\n    if relativeto:",
      "    modpath_ = normalize_modpath(modpath_, hide_init=hide_init and not modpath_.endswith('__init__.py'),\n                                 hide_main=hide_main)\n    if relativeto:",
      'modpath_to_modname keeps __init__ when given the __init__.py file')
    M('C17_ctxpop', ['C17', 'C12'], 'utils/util_import.py',
      "        else:\n            sys.path.pop(self.index)\n\n\ndef _custom_import_modpath",
      "        elif ex_type is None:\n            sys.path.pop(self.index)\n\n\ndef _custom_import_modpath",
      'PythonPathContext does not pop its entry when the import raised')
    M('C17_dirpkg', ['C17'], 'utils/util_import.py',
      "            if isfile(join(modpath, '__init__.py')):\n                if _isvalid(modpath, dpath):\n                    return modpath\n\n        # If that fails",
      "            if isdir(modpath):\n                if _isvalid(modpath, dpath):\n                    return modpath\n\n        # If that fails",
      'a leaf directory without __init__.py is accepted as a package')
    M('C17_abi', ['C17'], 'utils/util_import.py',
      "    if '.' in modname:\n        modname, abi_tag = modname.split('.', 1)\n", "",
      'ABI tag of extension modules not removed from the module name')

    # ---- C08 ---------------------------------------------------------------
    M('E4', ['C08'], 'doctest_example.py',
      "                            found_lineno = sub_tb.tb_lineno\n                            break\n",
      "                            found_lineno = sub_tb.tb_lineno\n",
      'traceback search keeps the last (innermost) doctest frame')
    M('C08_body', ['C08'], 'core.py',
      "        body_lineno = label_lineno + 1\n", "        body_lineno = label_lineno\n",
      'google block body located on the tag line')
    M('C08_unoffset', ['C08'], 'core.py',
      "        for p in parts:\n            p.line_offset -= unoffset\n", "        for p in parts[:1]:\n            p.line_offset -= unoffset\n",
      'freeform rebasing of part offsets applied to the first part only')
    M('C08_curr', ['C08'], 'core.py',
      "                if not curr_parts:\n                    curr_offset += part.count('\\n') + 1",
      "                if not curr_parts:\n                    curr_offset += part.count('\\n')",
      'leading text of a freeform docstring counted one line short')
    M('C08_F5', ['C08'], 'static_analysis.py',
      "        if hasattr(docnode, 'end_lineno') and PLAT_IMPL != 'PyPy':", "        if False:",
      'reverse of fix F5 (docstring start reconstructed from its end)')
    M('C08_goffset', ['C08'], 'docstr/docscrape_google.py',
      "        if len(lines) == 0 or (len(lines) == 1 and len(lines[0]) == 0):\n            line_offset += len(lines)\n            continue",
      "        if len(lines) == 0 or (len(lines) == 1 and len(lines[0]) == 0):\n            continue",
      'empty groups between google blocks no longer advance the line offset')
    M('C08_nexec', ['C08'], 'doctest_part.py',
      "        return len(self.exec_lines)\n", "        return len([ln for ln in self.exec_lines if ln.strip()])\n",
      'n_exec_lines ignores blank source lines of the part')

    # ---- C10 ---------------------------------------------------------------
    M('C10_exit', ['C10'], '__main__.py',
      "    if n_failed > 0:\n        return 1", "    if n_failed > 1:\n        return 1",
      'exit status non-zero only for two or more failures')
    M('C10_exit_total', ['C10'], '__main__.py',
      "    n_failed = run_summary.get('n_failed', 0)\n", "    n_failed = run_summary.get('n_total', 0) - run_summary.get('n_passed', 0)\n",
      'exit status derived from total minus passed (skipped doctests make the run fail)')
    M('C10_rundisabled', ['C10'], 'runner.py',
      "                if gather_all and example.is_disabled():\n                    continue\n", "",
      'force-disabled doctests are run by all')
    M('C10_failedlist', ['C10'], 'runner.py',
      "            if summary['skipped']:\n                pass\n", "            if False:\n                pass\n",
      'skipped doctests are appended to the failed list')
    M('C10_named_disabled', ['C10'], 'runner.py',
      "                if gather_all and example.is_disabled():", "                if example.is_disabled():",
      'a named force-disabled doctest is not run')
    M('C10_list', ['C10'], 'runner.py',
      "                                          for example in examples]))", "                                          for example in examples if not example.is_disabled()]))",
      'list omits force-disabled doctests')
    M('C10_unstable', ['C10'], 'doctest_example.py',
      "            r'>>>\\s*#\\s*UNSTABLE',\n", "",
      'UNSTABLE no longer force-disables')
    M('C10_failfast', ['C10', 'C09'], 'runner.py',
      "                failed.append(example)\n", "                failed.append(example)\n                if len(failed) >= 3:\n                    break\n",
      'the run stops after the third failure')
    M('C10_substr', ['C10'], 'runner.py',
      "            if gather_all or command in example.valid_testnames:", "            if gather_all or any(command in n for n in example.valid_testnames):",
      'a named doctest is matched by substring (f1 also runs f10, f1:0 also f1:0x)')

    # ---- C15 ---------------------------------------------------------------
    M('C15_style', ['C15'], 'plugin.py',
      "        modpath = str(self.fspath)\n\n        style = self.config.getvalue('xdoctest_style')",
      "        modpath = str(self.fspath)\n\n        style = self.config.getvalue('xdoctest_style') if self.config.getvalue('xdoctest_style') != 'google' else 'auto'",
      'plugin collects with style auto when google was asked for')
    M('C15_anything_ran', ['C15'], ['plugin.py', 'doctest_example.py'],
      ["        if not self.dtest.anything_ran():\n            pytest.skip('doctest is empty or all parts were skipped')\n",
       "            if self.mode == 'pytest':\n                import pytest\n                pytest.skip()\n"],
      ["", "            pass\n"],
      'all-skipped doctests are reported as passed under pytest (both redundant skip signals removed)')
    M('C15_options', ['C15'], 'plugin.py',
      "        for dtest in examples:\n            dtest.config.update(self._examp_conf)\n", "        for dtest in examples:\n            dtest.config.update({k: v for k, v in self._examp_conf.items() if k != 'default_runtime_state'})\n",
      '--xdoctest-options not propagated to module doctests')
    M('C15_disabled', ['C15'], 'plugin.py',
      "        if self.dtest.is_disabled(pytest=True):\n            pytest.skip('doctest encountered global skip directive')\n", "",
      'force-disabled doctests are run under pytest')
    M('C15_onerror', ['C15'], 'plugin.py',
      "        self.dtest.run(on_error='raise')", "        self.dtest.run(on_error='return')",
      'failures are not raised under pytest (every doctest passes)')
    M('C15_native_opts', ['C15'], '__main__.py',
      "    options = ns['options']\n    if options is None:", "    options = ns['options']\n    if options is not None and options.startswith('-'):\n        options = ns['options'] = options.replace('-', '+', 1)\n    if options is None:",
      'native CLI turns a leading negative option into a positive one')

    # ---- C19 ---------------------------------------------------------------
    M('C19_indent', ['C19'], 'utils/util_str.py',
      "    return prefix + text.replace('\\n', '\\n' + prefix)", "    return prefix + text.replace('\\n', '\\n' + prefix, 3)",
      'utils.indent only indents the first four lines')
    M('C19_nowant', ['C19'], 'runner.py',
      "            if part.want:\n                want_text = '# doctest want:\\n'", "            if part.want and len(body_lines) < 2:\n                want_text = '# doctest want:\\n'",
      'want comment blocks only emitted for the first two parts')
    M('C19_star_next', ['C19'], 'runner.py',
      "                for line in part.exec_lines:\n                    # TODO: this is not robust, need AST magic here",
      "                _it = iter(part.exec_lines)\n                for line in _it:\n                    if ' import *' in line:\n                        next(_it, None)\n                        continue\n                    # TODO: this is not robust, need AST magic here",
      'removing a star import also drops the line after it')
    M('C19_disabled', ['C19'], 'runner.py',
      "                if gather_all and example.is_disabled():", "                if command == 'all' and example.is_disabled():",
      'force-disabled doctests are dumped')
    M('C19_reverse', ['C19'], 'runner.py',
      "        for part in example._parts:\n\n            if dump_config", "        for part in sorted(example._parts, key=lambda p: bool(p.want)):\n\n            if dump_config",
      'parts with a want are emitted after the parts without')
    M('C19_wantindent', ['C19'], 'runner.py',
      "                want_text += utils.indent(part.want, '# ')", "                want_text += '# ' + part.want",
      'only the first line of a want is commented out')
    M('C19_noimportstar', ['C19'], 'runner.py',
      "                    if ' import *' in line:\n                        continue", "                    if line.endswith(' import *'):\n                        continue",
      'star imports followed by a comment are kept')

    # ---- C12 ---------------------------------------------------------------
    M('C12_nostop', ['C12'], 'utils/util_stream.py',
      "            finally:\n                self.stop()", "            if type_ is None:\n                self.stop()",
      'CaptureStdout does not restore sys.stdout when the body raised')
    M('C12_stop_suppress', ['C12'], 'utils/util_stream.py',
      "        if self.enabled:\n            self.started = False\n            sys.stdout = self.orig_stdout",
      "        if self.enabled and self.suppress:\n            self.started = False\n            sys.stdout = self.orig_stdout",
      'sys.stdout only restored when output is suppressed (leak at verbosity >= 2)')
    M('C12_nocatch', ['C12'], 'doctest_example.py',
      "        with warnings.catch_warnings(record=True) as self.warn_list:\n            for partx, part in enumerate(self._parts):",
      "        self.warn_list = []\n        if True:\n            for partx, part in enumerate(self._parts):",
      'warning filters changed by the doctest are not restored')
    M('C12_loop', ['C12'], 'doctest_example.py',
      "                                else:\n                                    asyncio.run(eval(code, test_globals))",
      "                                else:\n                                    asyncio.new_event_loop().run_until_complete(eval(code, test_globals))",
      'awaiting parts run on a fresh event loop that is never closed')
    M('C12_baseexc', ['C12'], 'utils/util_stream.py',
      "        if trace is not None:\n            return False  # return a falsey value on error",
      "        if trace is not None:\n            if not isinstance(value, Exception):\n                sys.stdout = self.cap_stdout\n            return False  # return a falsey value on error",
      'after SystemExit / KeyboardInterrupt the capture stream stays installed')

    # ---- C09 ---------------------------------------------------------------
    M('C09_F1', ['C09'], 'doctest_example.py',
      "                            if 0 < tb_lineno <= len(orig_lines):", "                            if True:",
      'reverse of fix F1 (IndexError when rendering a failure raised in a helper of an earlier, longer part)')
    M('C09_F4', ['C09'], 'doctest_example.py',
      "                    self.exc_info = sys.exc_info()\n                    self.failed_tb_lineno = getattr(ex, 'lineno', None) or 1\n                    self.logged_evals[partx] = got_eval\n                    self.logged_stdout[partx] = ''\n                    if on_error == 'raise':\n                        raise\n                    break",
      "                    raise",
      'reverse of fix F4 (compile-only errors escape run)')
    M('C09_F4b', ['C09'], 'doctest_example.py',
      "if self._partfilename is not None and self._partfilename in line and ', in ' in line:", "if self._partfilename is not None and self._partfilename in line:",
      'reverse of the second half of fix F4 (traceback rewriter trips over File lines without a function name)')
    M('C09_F9', ['C09'], 'checker.py',
      "                try:\n                    got_repr = repr(got_eval)\n                except Exception as ex:\n                    raise ExtractGotReprException('Error calling repr for {}. Caused by: {!r}'.format(type(got_eval), ex), ex)\n",
      "                got_repr = repr(got_eval)\n",
      'reverse of fix F9 (raising repr in the stdout-then-value fallback)')
    M('C09_import_post', ['C09'], 'doctest_example.py',
      "                        else:\n                            summary = self._post_run(verbose)\n                            return summary",
      "                        else:\n                            return {'passed': False, 'failed': False, 'skipped': True, 'exc_info': None}",
      'an import failure is reported as skipped')
    M('C09_reraise', ['C09'], 'runner.py',
      "    on_error = 'return' if n_total > 1 else 'raise'\n    on_error = 'return'\n", "    on_error = 'return' if n_total > 1 else 'raise'\n",
      'a single selected doctest is run with on_error=raise (the native run dies on its failure)')

    # ---- C11 ---------------------------------------------------------------
    M('E7', ['C11'], 'doctest_example.py',
      "        # Clear the global namespace so doctests don't leak memory\n        self.global_namespace.clear()\n", "",
      'the per-doctest namespace is not cleared after a run')
    M('E14', ['C11'], 'doctest_example.py',
      "        self.logged_stdout.clear()\n        self._unmatched_stdout = []\n", "        self.logged_stdout.clear()\n",
      'carried-over unmatched output is not reset at the start of a run')
    M('C11_nodeepcopy', ['C11'], 'directive.py',
      "        self._global_state = copy.deepcopy(DEFAULT_RUNTIME_STATE)", "        self._global_state = dict(DEFAULT_RUNTIME_STATE)",
      'run state is a shallow copy of the defaults (the REQUIRES set is shared)')
    M('C11_global_itself', ['C11'], 'directive.py',
      "        self._global_state = copy.deepcopy(DEFAULT_RUNTIME_STATE)\n        if default_state:", "        self._global_state = DEFAULT_RUNTIME_STATE if not default_state else copy.deepcopy(DEFAULT_RUNTIME_STATE)\n        if default_state:",
      'without default options the run state is the module-level default dict itself')
    M('C11_moddict', ['C11'], 'doctest_example.py',
      "            test_globals.update(self.module.__dict__)\n", "            test_globals = self.global_namespace = self.module.__dict__\n",
      'doctests run directly in the module dictionary')
    M('C11_logged', ['C11'], 'doctest_example.py',
      "        self.logged_evals.clear()\n        self.logged_stdout.clear()\n", "        self.logged_evals.clear()\n",
      'recorded stdout of an earlier run is kept')
    M('C11_runstate_reuse', ['C11'], 'doctest_example.py',
      "        runstate = self._runstate = directive.RuntimeState(default_state)\n",
      "        runstate = self._runstate = (getattr(self, '_runstate', None) or directive.RuntimeState(default_state))\n",
      'the run state of the previous run of the same object is reused')
    M('C11_alias_default', ['C11', 'C15'], 'directive.py',
      "        if default_state:\n            self._global_state.update(default_state)\n        self._inline_state = {}",
      "        if default_state:\n            for k, v in self._global_state.items():\n                default_state.setdefault(k, v)\n            self._global_state = default_state\n        self._inline_state = {}",
      'a non-empty default option dict is adopted as the run state (directives leak to every doctest sharing it)')
    M('C09_F16', ['C09'], 'checker.py',
      "            elif got:\n                # The want can normalize to nothing (e.g. it only consists of\n                # a <BLANKLINE> marker) while something was printed.\n",
      "            elif got:\n                raise AssertionError('impossible state')\n",
      'reverse of fix F16 (a want that normalizes to nothing makes the report raise)')
