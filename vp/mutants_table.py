"""Mutants for the properties other than C06 (see vp/mutants.py)."""


def register(M):
    # ---- C05 ---------------------------------------------------------------
    M('K2', ['C05'], 'checker.py',
      'TRAILING_WS = re.compile(r"[ \\t]*$", re.UNICODE | re.MULTILINE)',
      'TRAILING_WS = re.compile(r"[ ]*$", re.UNICODE | re.MULTILINE)',
      'trailing-whitespace regex no longer covers tabs')
    M('K3', ['C05'], 'checker.py',
      'unicode_literal_re = re.compile(r"(\\W|^)[uU]([rR]?[\\\'\\"])", re.UNICODE)',
      'unicode_literal_re = re.compile(r"()[uU]([rR]?[\\\'\\"])", re.UNICODE)',
      'prefix stripping without the word-boundary guard')
    M('C05_ansi', ['C05'], 'checker.py',
      "        got = utils.strip_ansi(got)\n", "        pass\n",
      'ANSI stripping of the got dropped')
    M('C05_rstrip', ['C05'], 'checker.py',
      "    want = want.rstrip()\n    got = got.rstrip()\n", "    got = got.rstrip()\n",
      'want.rstrip() dropped')
    M('C05_gotonly', ['C05'], 'checker.py',
      "        got = ' '.join(got.split())\n        want = ' '.join(want.split())\n",
      "        got = ' '.join(got.split())\n",
      'whitespace collapse applied to got only')
    # (a mutant restricting the IGNORE_WHITESPACE regex to blanks is equivalent: the preceding
    #  ' '.join(split()) already turned every whitespace run into one blank)
    M('C05_nr_always', ['C05'], 'checker.py',
      "    if runstate['NORMALIZE_REPR']:\n        def norm_repr", "    if True:\n        def norm_repr",
      'NORMALIZE_REPR applied when off')
    M('C05_dab_inv', ['C05'], 'checker.py',
      "    if not runstate['DONT_ACCEPT_BLANKLINE']:\n        want = remove_blankline_marker(want)\n\n    # always",
      "    if runstate['DONT_ACCEPT_BLANKLINE']:\n        want = remove_blankline_marker(want)\n\n    # always",
      'DONT_ACCEPT_BLANKLINE inverted')
    M('C05_F8', ['C05'], 'checker.py',
      "if len(a) >= 2 and a.startswith(q) and a.endswith(q):", "if a.startswith(q) and a.endswith(q):",
      'reverse of fix F8 (lone quote is a quoted string)')
    M('C05_F12', ['C05'], 'checker.py',
      "                if a_is_want:\n                    return _check_match(b, a_, runstate)\n",
      "                if a_is_want:\n                    return _check_match(a_, b, runstate)\n",
      'reverse of fix F12 (roles of got and want swapped when unquoting the want)')
    M('C05_F13', ['C05'], 'checker.py',
      "                        if runstate['NORMALIZE_WHITESPACE']:\n", "                        if False:\n",
      'reverse of fix F13 (no strip after unquote)')
    M('C05_bytes', ['C05'], 'checker.py',
      "        got = remove_prefixes(bytes_literal_re, got)\n", "",
      'bytes prefix not removed from got')
