"""Mutants for the properties other than C06 (see vp/mutants.py)."""


def register(M):
    # ---- C05 ---------------------------------------------------------------
    M('K2', ['C05'], 'checker.py',
      'TRAILING_WS = re.compile(r"[ \\t]*$", re.UNICODE | re.MULTILINE)',
      'TRAILING_WS = re.compile(r"[ ]*$", re.UNICODE | re.MULTILINE)',
      'trailing-whitespace regex no longer covers tabs')
    M('K3', ['C05'], 'checker.py',
      'unicode_literal_re = re.compile(r"(\\W|^)[uU]([rR]?[\\\'\\"])", re.UNICODE)',
      'unicode_literal_re = re.compile(r"()[uU]([rR]?[\\\'\\"])", re.UNICODE)',
      'prefix stripping without the word-boundary guard')
    M('C05_ansi', ['C05'], 'checker.py',
      "        got = utils.strip_ansi(got)\n", "        pass\n",
      'ANSI stripping of the got dropped')
    M('C05_rstrip', ['C05'], 'checker.py',
      "    want = want.rstrip()\n    got = got.rstrip()\n", "    got = got.rstrip()\n",
      'want.rstrip() dropped')
    M('C05_gotonly', ['C05'], 'checker.py',
      "        got = ' '.join(got.split())\n        want = ' '.join(want.split())\n",
      "        got = ' '.join(got.split())\n",
      'whitespace collapse applied to got only')
    # (a mutant restricting the IGNORE_WHITESPACE regex to blanks is equivalent: the preceding
    #  ' '.join(split()) already turned every whitespace run into one blank)
    M('C05_nr_always', ['C05'], 'checker.py',
      "    if runstate['NORMALIZE_REPR']:\n        def norm_repr", "    if True:\n        def norm_repr",
      'NORMALIZE_REPR applied when off')
    M('C05_dab_inv', ['C05'], 'checker.py',
      "    if not runstate['DONT_ACCEPT_BLANKLINE']:\n        want = remove_blankline_marker(want)\n\n    # always",
      "    if runstate['DONT_ACCEPT_BLANKLINE']:\n        want = remove_blankline_marker(want)\n\n    # always",
      'DONT_ACCEPT_BLANKLINE inverted')
    M('C05_F8', ['C05'], 'checker.py',
      "if len(a) >= 2 and a.startswith(q) and a.endswith(q):", "if a.startswith(q) and a.endswith(q):",
      'reverse of fix F8 (lone quote is a quoted string)')
    M('C05_F12', ['C05'], 'checker.py',
      "                if a_is_want:\n                    return _check_match(b, a_, runstate)\n",
      "                if a_is_want:\n                    return _check_match(a_, b, runstate)\n",
      'reverse of fix F12 (roles of got and want swapped when unquoting the want)')
    M('C05_F13', ['C05'], 'checker.py',
      "                        if runstate['NORMALIZE_WHITESPACE']:\n", "                        if False:\n",
      'reverse of fix F13 (no strip after unquote)')
    M('C05_bytes', ['C05'], 'checker.py',
      "        got = remove_prefixes(bytes_literal_re, got)\n", "",
      'bytes prefix not removed from got')

    # ---- C01 ---------------------------------------------------------------
    M('P4', ['C01', 'C13'], 'parser.py',
      "        string = string.expandtabs()\n", "",
      'tab expansion dropped (tab-indented docstrings lose their doctest)')
    M('C01_deco', ['C04'], 'parser.py',
      "                if hasattr(node, 'decorator_list') and node.decorator_list:\n                    lineno = node.decorator_list[0].lineno - 1",
      "                if False:\n                    lineno = node.decorator_list[0].lineno - 1",
      'decorator adjustment of PS1 line numbers dropped')
    M('C01_ps2', ['C04'], 'parser.py',
      "        ps1_linenos = sorted(set(ps1_linenos).difference(ps2_linenos))",
      "        ps1_linenos = sorted(set(ps1_linenos))",
      'explicit ... lines may become PS1 lines')
    M('C01_dupstdout2', ['C01'], 'doctest_example.py',
      "                    self.logged_evals[partx] = got_eval\n                    self.logged_stdout[partx] = cap.text\n\n        if self.exc_info is None:",
      "                    self.logged_evals[partx] = got_eval\n                    self.logged_stdout[partx] = cap.cap_stdout.getvalue()\n\n        if self.exc_info is None:",
      'recorded stdout of a part is the whole buffer (duplication)')
    M('C01_pos', ['C01'], 'utils/util_stream.py',
      "        self._pos = self.cap_stdout.tell()\n", "",
      'CaptureStdout read position not advanced')
    M('C01_F10', ['C02'], 'parser.py',
      "            final_lines = exec_source_lines[ps1_linenos[-1]:] if ps1_linenos else exec_source_lines\n",
      "            final_lines = exec_source_lines\n",
      'reverse of fix F10 (semicolon anywhere in the chunk forces single mode)')
    M('C01_F11', ['C01'], 'parser.py',
      "(mid[0] == 'dsrc' and right[0] == 'dcnt' and\n                                     mid[1].lstrip().startswith('>>>'))",
      "(mid[0] == 'dsrc' and right[0] == 'dcnt')",
      'reverse of fix F11 (unprefixed string line followed by ... line starts a group)')
    M('C01_complete', ['C01'], 'parser.py',
      "                    if any(\"\'\'\'\" in s or \'\"\"\"\' in s for s in source_parts):",
      "                    if any(\"\'\'\'\" in s for s in source_parts):",
      'triple-quote rule for unprefixed lines only recognises single-quote triples')
    M('C01_u4', ['C01'], 'parser.py',
      "            if prefix.strip() not in {'>>>', '...', ''}:  # nocover",
      "            if prefix.strip() not in {'>>>', '...'}:  # nocover",
      'blank-prefixed continuation lines are kept whole (four columns too many)')
    M('C01_ns', ['C01'], 'doctest_example.py',
      "                                exec(code, test_globals)\n", "                                exec(code, dict(test_globals))\n",
      'exec parts run in a copy of the namespace (bindings lost between parts)')
