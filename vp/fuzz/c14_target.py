#!/venv/bin/python
"""
Atheris (libFuzzer) entry point for C14.  The byte input is decoded into the
same line grammar the Hypothesis generator uses (index bytes into the fragment
tables), so the fuzzer mutates structure instead of dying in the prompt
detector; xdoctest is instrumented for coverage; the oracle of
vp/props/c14.py runs inside the target.  On a violation the case is written to
$VP_ATHERIS_OUT/violation.json and the exception is left to libFuzzer.
"""
import atexit
import json
import os
import sys

import atheris

with atheris.instrument_imports(include=['xdoctest']):
    import xdoctest  # noqa
    from xdoctest import core, parser, static_analysis, directive  # noqa
    from xdoctest.docstr import docscrape_google  # noqa

from vp.engine import Violation, h64  # noqa
from vp.props import c14  # noqa

OUT = os.environ.get('VP_ATHERIS_OUT', '.')
STATS = {'executions': 0, 'error': 0, 'parts': 0, 'noparts': 0, 'samples': [], 'nontrivial_hashes': []}
_seen = set()


def decode(data):
    """bytes -> docstring text (structured decoder)"""
    fdp = atheris.FuzzedDataProvider(data)
    n = fdp.ConsumeIntInRange(1, 40)
    base = c14.INDENTS[fdp.ConsumeIntInRange(0, len(c14.INDENTS) - 1)] if fdp.ConsumeBool() else ''
    lines = []
    for _ in range(n):
        if fdp.remaining_bytes() == 0:
            break
        ind = base + c14.INDENTS[fdp.ConsumeIntInRange(0, len(c14.INDENTS) - 1)]
        k = fdp.ConsumeIntInRange(0, 9)
        if k <= 5:
            ln = ind + c14.PREFIXES[fdp.ConsumeIntInRange(0, len(c14.PREFIXES) - 1)] + c14.CODE[fdp.ConsumeIntInRange(0, len(c14.CODE) - 1)]
        elif k == 6:
            ln = ind + c14.CODE[fdp.ConsumeIntInRange(0, len(c14.CODE) - 1)]
        elif k == 7:
            ln = ind + ['>>>', '...', '>>> ', '... '][fdp.ConsumeIntInRange(0, 3)]
        elif k == 8:
            ln = ind + c14.TEXT[fdp.ConsumeIntInRange(0, len(c14.TEXT) - 1)]
        else:
            # a few raw characters so the fuzzer can leave the fragment tables
            ln = ind + c14.PREFIXES[fdp.ConsumeIntInRange(0, len(c14.PREFIXES) - 1)] + fdp.ConsumeUnicodeNoSurrogates(12)
        lines.append(ln[:200])
    tail = ['', '\n', '\n    ', '\n\n'][fdp.ConsumeIntInRange(0, 3)] if fdp.remaining_bytes() else ''
    return '\n'.join(lines) + tail


def write_stats():
    try:
        with open(os.path.join(OUT, 'stats.json'), 'w') as f:
            json.dump(STATS, f)
    except Exception:
        pass


def TestOneInput(data):
    text = decode(data)
    STATS['executions'] += 1
    try:
        res = c14.oracle(text)
    except Violation as v:
        with open(os.path.join(OUT, 'violation.json'), 'w') as f:
            json.dump({'key': v.key, 'msg': v.msg, 'text': text}, f)
        write_stats()
        raise
    if res in STATS:
        STATS[res] += 1
    if res in ('error', 'parts') and c14.has_prompt(text):
        hh = h64(text)
        if hh not in _seen and len(_seen) < 200000:
            _seen.add(hh)
            STATS['nontrivial_hashes'].append(hh)
            if len(STATS['samples']) < 3:
                STATS['samples'].append(text)
    if STATS['executions'] % 2000 == 0:
        write_stats()


def main():
    atexit.register(write_stats)
    atheris.Setup(sys.argv, TestOneInput)
    atheris.Fuzz()


if __name__ == '__main__':
    main()
