"""
Scratch directories and module hygiene.  Everything lives under a per-process
temporary directory (``tempfile.mkdtemp`` honours $TMPDIR) which is removed at
exit; nothing a registered command needs is kept under /tmp between runs.
"""
import atexit
import contextlib
import io
import itertools
import os
import shutil
import subprocess
import sys
import tempfile
import warnings

_ROOT = None
_COUNTER = itertools.count()


def root():
    global _ROOT
    if _ROOT is None or not os.path.isdir(_ROOT) or _ROOT_PID != os.getpid():
        _make_root()
    return _ROOT


_ROOT_PID = None


def _make_root():
    global _ROOT, _ROOT_PID
    _ROOT = tempfile.mkdtemp(prefix='vp_{}_'.format(os.getpid()))
    _ROOT_PID = os.getpid()
    atexit.register(shutil.rmtree, _ROOT, True)


def cleanup():
    global _ROOT
    if _ROOT and _ROOT_PID == os.getpid():
        shutil.rmtree(_ROOT, ignore_errors=True)
        _ROOT = None


def fresh_dir(prefix='d'):
    d = os.path.join(root(), '{}{}'.format(prefix, next(_COUNTER)))
    os.makedirs(d)
    return d


def unique_name(prefix='vpmod'):
    return '{}_{}_{}'.format(prefix, os.getpid(), next(_COUNTER))


@contextlib.contextmanager
def scratch(prefix='d'):
    d = fresh_dir(prefix)
    try:
        yield d
    finally:
        shutil.rmtree(d, ignore_errors=True)


def purge_modules(prefixes):
    if isinstance(prefixes, str):
        prefixes = [prefixes]
    for name in list(sys.modules):
        if any(name == p or name.startswith(p + '.') for p in prefixes):
            del sys.modules[name]
    import importlib
    importlib.invalidate_caches()


@contextlib.contextmanager
def quiet():
    """swallow stdout/stderr noise and warnings of the code under test"""
    out, err = io.StringIO(), io.StringIO()
    with warnings.catch_warnings(record=True) as wl, contextlib.redirect_stdout(out), contextlib.redirect_stderr(err):
        warnings.simplefilter('always')
        yield out, err, wl


@contextlib.contextmanager
def quiet_io():
    """swallow stdout/stderr only: the warning filters are left alone, so a leak of them stays visible"""
    out, err = io.StringIO(), io.StringIO()
    with contextlib.redirect_stdout(out), contextlib.redirect_stderr(err):
        yield out, err


def clean_env():
    env = {k: v for k, v in os.environ.items() if not k.startswith(('XDOCTEST_', 'PYTEST_'))}
    env['PYTHONPATH'] = os.path.join(os.environ.get('VP_REPO', '/repo'), 'src')
    env['PYTHONHASHSEED'] = '0'
    env['NO_COLOR'] = '1'
    env['PYTHONDONTWRITEBYTECODE'] = '1'
    env.pop('COLUMNS', None)
    return env


def run_cli(args, cwd, timeout=120, extra_path=None):
    """python <args> in an empty working directory with a scrubbed environment"""
    env = clean_env()
    if extra_path:
        env['PYTHONPATH'] = env['PYTHONPATH'] + os.pathsep + extra_path
    p = subprocess.run(['/venv/bin/python'] + list(args), cwd=cwd, env=env, stdout=subprocess.PIPE,
                       stderr=subprocess.PIPE, text=True, timeout=timeout)
    return p.returncode, p.stdout, p.stderr
