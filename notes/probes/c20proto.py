import doctest, random, sys, io, contextlib, warnings, collections, textwrap
from xdoctest import core

rng = random.Random(int(sys.argv[1]) if len(sys.argv) > 1 else 0)
N = int(sys.argv[2]) if len(sys.argv) > 2 else 2000

def gen_examples():
    """returns list of (source_lines, directive_kind)"""
    exs = []
    k = 0
    exs.append((["T = []"], None)) if False else None
    defined = False
    for _ in range(rng.randint(1, 8)):
        k += 1
        c = rng.choice(['assign','echo','print','printblank','both','for','def','raise','mlit','semi','semiprint','comment','ell','skip','nw','ied','str','none','forecho','if','try','raise_stmt','while','with','echo_after_print_stmt'])
        t = f"T.append({k})"
        if c == 'assign': src = [f"x{k} = {t} or {k}"]
        elif c == 'echo': src = [f"({t} or {k}) + 1"]
        elif c == 'print': src = [f"print('p{k}', {t})"]
        elif c == 'printblank': src = [f"print('a{k}\\n\\nb', {t})"]
        elif c == 'both':
            if not defined:
                exs.append((["def f(v):", "    print('in f', v)", "    return v + 2"], None)); defined = True
            src = [f"f({t} or {k})"]
        elif c == 'for': src = [f"for i in range(2):", f"    print(i, {t})"]
        elif c == 'forecho': src = [f"for i in range(2):", f"    {t} or i + 5"]
        elif c == 'def': src = [f"def g{k}():", f"    {t}", f"    return {k}"]
        elif c == 'raise': src = [f"int({t} or 'z{k}')"]
        elif c == 'raise_stmt': src = [f"raise ValueError({t} or 'bad {k}: thing')"]
        elif c == 'mlit': src = [f"d{k} = {{", f"    'a': {t},", f"    'b': {k}}}"]
        elif c == 'semi': src = [f"a{k} = 1; {t}"]
        elif c == 'semiprint': src = [f"print({k}); {t}; print('z')"]
        elif c == 'comment': src = [f"# comment {k}"]
        elif c == 'ell': src = [f"print(list(range(20)), {t})  # doctest: +ELLIPSIS"]
        elif c == 'skip': src = [f"print('skipme', {t})  # doctest: +SKIP"]
        elif c == 'nw': src = [f"print('a   b    c', {t})  # doctest: +NORMALIZE_WHITESPACE"]
        elif c == 'ied': src = [f"int({t} or 'q{k}')  # doctest: +IGNORE_EXCEPTION_DETAIL"]
        elif c == 'str': src = [f"({t} or 'a{k}') + \"b'\""]
        elif c == 'none': src = [f"{t}"]
        elif c == 'if': src = [f"if {k} > 0:", f"    print('yes', {t})", "else:", "    print('no')"]
        elif c == 'try': src = ["try:", f"    {t}", "    1 / 0", "except ZeroDivisionError as e:", "    print('caught', e)"]
        elif c == 'while': src = [f"n{k} = 0", ]
        elif c == 'with': src = ["with open('/dev/null') as fh:", f"    print('w', {t})"]
        elif c == 'echo_after_print_stmt': src = [f"print('x{k}'); ({t} or {k})"]
        exs.append((src, c))
    return exs

class Rec(doctest.DocTestRunner):
    def __init__(self): super().__init__(verbose=False, optionflags=0); self.gots = []
    def report_success(self, out, test, example, got): self.gots.append(got)
    def report_failure(self, out, test, example, got): self.gots.append(got)
    def report_unexpected_exception(self, out, test, example, exc_info):
        import traceback
        self.gots.append(('EXC', traceback.format_exception_only(*exc_info[:2])[-1]))

def layout(exs, wants, indent, term_style):
    lines = []
    for (src, c), w in zip(exs, wants):
        lines.append('>>> ' + src[0])
        for s in src[1:]: lines.append('... ' + s)
        if len(src) > 1 and term_style: lines.append('...')
        if w:
            lines.extend(w)
        if rng.random() < 0.2:
            lines.append(''); lines.append('Some prose here.'); lines.append('')
        elif rng.random() < 0.2: lines.append('')
    return '\n'.join(indent + ln if ln else ln for ln in lines) + '\n'

def make_case():
    exs = gen_examples()
    term = rng.random() < 0.5
    indent = rng.choice(['', '    ', '        '])
    # pass 1: find gots under stdlib
    text0 = layout(exs, [None]*len(exs), '', True)
    T = []
    test = doctest.DocTestParser().get_doctest(text0, {'T': T}, 'case', 'case', 0)
    r = Rec()
    with contextlib.redirect_stdout(io.StringIO()):
        r.run(test, clear_globs=True)
    gots = list(r.gots)
    allg = []
    for (src, c) in exs:
        if c in ('comment', 'skip'): allg.append('')
        else: allg.append(gots.pop(0))
    assert not gots
    wants = []
    for (src, c), got in zip(exs, allg):
        if isinstance(got, tuple):
            msg = got[1].rstrip('\n')
            if c == 'ied': msg = msg.split(':')[0] + ': different detail'
            w = ['Traceback (most recent call last):'] + rng.choice([[], ['    ...'], ['  File "<stdin>", line 1, in <module>']]) + msg.split('\n')
        else:
            w = []
            if got:
                for ln in got.rstrip('\n').split('\n') if got.endswith('\n') else got.split('\n'):
                    w.append(ln if ln.strip() else '<BLANKLINE>')
            if c == 'ell': w = [w[0].replace('2, 3, 4, 5, 6, 7, 8, 9, 10, 11, 12', '...')]
            if c == 'skip': w = ['wrong output']
            if c == 'nw': w = [w[0].replace('a   b    c', 'a b\n' + 'c').split('\n')[0], w[0].replace('a   b    c', 'a b\n' + 'c').split('\n')[1]]
        wants.append(w)
    text = layout(exs, wants, indent, term)
    return text, exs

stats = collections.Counter(); shown = collections.Counter()
for i in range(N):
    text, exs = make_case()
    # stdlib verdict
    T1 = []
    test = doctest.DocTestParser().get_doctest(text, {'T': T1}, 'case', 'case', 0)
    runner = doctest.DocTestRunner(verbose=False, optionflags=0)
    buf = io.StringIO()
    with contextlib.redirect_stdout(buf):
        res = runner.run(test, out=buf.write, clear_globs=False)
    if res.failed:
        stats['stdlib_fail(discard)'] += 1
        if shown['sf'] < 2: shown['sf'] += 1; print('STDLIB FAIL\n' + text + buf.getvalue()[:800])
        continue
    stats['stdlib_pass'] += 1
    T2 = []
    with warnings.catch_warnings(record=True) as wl, contextlib.redirect_stdout(io.StringIO()):
        warnings.simplefilter('always')
        xs = list(core.parse_docstr_examples(text, callname='case', style='freeform'))
    if len(xs) != 1:
        stats['x_not_collected'] += 1
        if shown['nc'] < 3: shown['nc'] += 1; print('NOT COLLECTED', len(xs), '\n' + text, [str(w.message)[:300] for w in wl])
        continue
    e = xs[0]; e.mode = 'native'; e.global_namespace['T'] = T2
    try:
        with contextlib.redirect_stdout(io.StringIO()):
            s = e.run(verbose=0, on_error='return')
    except BaseException as ex:
        stats['x_raise'] += 1; print('X RAISED', repr(ex), '\n' + text); continue
    kinds = tuple(sorted({c for _, c in exs if c}))
    if not s['passed']:
        why = type(s['exc_info'][1]).__name__ if s['exc_info'] else 'skipped'
        fp = e.failed_part
        key = (why, fp.exec_lines[0][:25] if fp is not None and fp != '<IMPORT>' else None)
        stats['x_fail'] += 1
        # classify by failing example kind
        kind = None
        if fp is not None:
            for src, c in exs:
                if src[0] == fp.exec_lines[-1] or src[0] in fp.exec_lines: kind = c
        stats[('x_fail_kind', kind, why)] += 1
        if shown[('f', kind)] < 1:
            shown[('f', kind)] += 1
            print('XDOCTEST FAIL kind', kind, why, '\n' + text, '\n'.join(e.repr_failure())[-600:])
    elif T1 != T2:
        stats['trace_mismatch'] += 1
        if shown['tm'] < 3: shown['tm'] += 1; print('TRACE MISMATCH', T1, T2, '\n' + text)
    else:
        stats['agree_pass'] += 1
for k, v in sorted(stats.items(), key=str): print(k, v)
