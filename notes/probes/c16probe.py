from xdoctest import core
p = '/tmp/scratch/c16/mod_c16probe.py'
res = {}
for an in ['static', 'dynamic']:
    res[an] = sorted((e.unique_callname, e.docsrc) for e in core.parse_doctestables(p, style='freeform', analysis=an))
s = dict(res['static']); d = dict(res['dynamic'])
print('only static', sorted(set(s) - set(d)))
print('only dynamic', sorted(set(d) - set(s)))
print('both', sorted(set(d) & set(s)))
print('src differ', [k for k in set(d) & set(s) if s[k] != d[k]])
