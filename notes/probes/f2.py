from xdoctest import core
import textwrap
def run(doc, **kw):
    ex = list(core.parse_docstr_examples(textwrap.dedent(doc), callname='t', style='freeform'))
    out = []
    for e in ex:
        e.mode = 'native'
        s = e.run(verbose=0, on_error='return', **kw)
        out.append((s['passed'], s['failed'], s['skipped'], s['exc_info'] and repr(s['exc_info'][1])))
    return out
print(run('''
    >>> T = []
    >>> T.append(1)  # xdoctest: +REQUIRES(module:nonexistent_zzz)
    >>> T.append(2)
    >>> print(T)
    [2]
'''))
print(run('''
    >>> T = []
    >>> T.append(1)  # xdoctest: +REQUIRES(module:sys)
    >>> T.append(2)
    >>> print(T)
    [1, 2]
'''))
print(run('''
    >>> T = []
    >>> T.append(1)  # xdoctest: +REQUIRES(module:os)
    >>> T.append(2)
    >>> print(T)
    [1, 2]
'''))
print(run('''
    >>> T = []
    >>> # xdoctest: +REQUIRES(module:nonexistent_zzz)
    >>> T.append(1)
    >>> T.append(3)  # xdoctest: -REQUIRES(module:nonexistent_zzz)
    >>> T.append(4)
    >>> # xdoctest: -REQUIRES(module:nonexistent_zzz)
    >>> T.append(2)
    >>> print(T)
    [2]
'''))
