import random, sys, io, contextlib, warnings, collections
from xdoctest import core, checker
rng = random.Random(int(sys.argv[1]) if len(sys.argv) > 1 else 0)
N = int(sys.argv[2]) if len(sys.argv) > 2 else 2000

def gen():
    stmts = []  # (src_lines, out, value_repr or None, is_expr)
    n = rng.randint(1, 7)
    for k in range(1, n+1):
        c = rng.choice(['print', 'print2', 'assign', 'value', 'strvalue', 'none', 'printvalue_none', 'for'])
        t = f"T.append({k})"
        if c == 'print': s = ([f"print('o{k}', {t})"], f"o{k} None\n", 'None', True)
        elif c == 'print2': s = ([f"print('o{k}a\\no{k}b', {t})"], f"o{k}a\no{k}b None\n", 'None', True)
        elif c == 'assign': s = ([f"v{k} = {t} or {k}"], '', None, False)
        elif c == 'value': s = ([f"({t} or {k}0) + 1"], '', str(k*10+1), True)
        elif c == 'strvalue': s = ([f"({t} or 's{k}') + 'x'"], '', repr(f's{k}x'), True)
        elif c == 'none': s = ([t], '', 'None', True)
        elif c == 'printvalue_none': s = ([f"print('q{k}') or {t}"], f"q{k}\n", 'None', True)
        elif c == 'for': s = ([f"for i{k} in range(2):", f"    print('f{k}', i{k}, {t})"], f"f{k} 0 None\nf{k} 1 None\n", None, False)
        stmts.append(s)
    return stmts

def build(stmts, wants):
    lines = []
    for (src, out, val, isx), w in zip(stmts, wants):
        lines.append('>>> ' + src[0]); lines += ['>>> ' + s for s in src[1:]]
        if w is not None: lines += w.rstrip('\n').split('\n')
    return '\n'.join(lines) + '\n'

def run(text):
    T = []
    with warnings.catch_warnings(record=True), contextlib.redirect_stdout(io.StringIO()):
        warnings.simplefilter('always')
        xs = list(core.parse_docstr_examples(text, callname='c', style='freeform'))
        assert len(xs) == 1, text
        e = xs[0]; e.mode = 'native'; e.global_namespace['T'] = T
        s = e.run(verbose=0, on_error='return')
    return s, T, e

stats = collections.Counter()
for it in range(N):
    stmts = gen()
    n = len(stmts)
    # choose want positions & kinds (must-pass)
    wants = [None]*n
    since = ''  # output since previous want
    for i, (src, out, val, isx) in enumerate(stmts):
        since += out
        if rng.random() < 0.5:
            opts = []
            if since: opts.append(('all', since))
            if out and isx: opts.append(('own', out))
            if isx and val is not None and (val != 'None'): opts.append(('val', val))
            if isx and val == 'None' and not out and not since: pass
            if not opts: continue
            kind, w = rng.choice(opts)
            wants[i] = w; since = ''
            stats['want_' + kind] += 1
    if not any(w is not None for w in wants): continue
    text = build(stmts, wants)
    s, T, e = run(text)
    if not s['passed']:
        stats['FALSE_FAIL'] += 1
        if stats['FALSE_FAIL'] <= 3: print('FALSE FAIL\n' + text + '\n'.join(e.repr_failure())[-500:])
        continue
    if T != list(range(1, n+1)): stats['TRACE_BAD'] += 1; print('TRACE', T, text)
    stats['pass_ok'] += 1
    # corrupt one want
    idxs = [i for i, w in enumerate(wants) if w is not None]
    i = rng.choice(idxs)
    w = wants[i]; wl = w.rstrip('\n').split('\n')
    c = rng.choice(['replace', 'append', 'prepend', 'droplast', 'prepend_prev'])
    if c == 'replace': neww = 'JUNK%d\n' % it
    elif c == 'append': neww = '\n'.join(wl + ['JUNK%d' % it]) + '\n'
    elif c == 'prepend': neww = '\n'.join(['JUNK%d' % it] + wl) + '\n'
    elif c == 'droplast':
        if len(wl) < 2: continue
        neww = '\n'.join(wl[:-1]) + '\n'
    elif c == 'prepend_prev':
        prev = [j for j in idxs if j < i]
        if not prev: continue
        neww = wants[prev[-1]].rstrip('\n') + '\n' + w
    cw = list(wants); cw[i] = neww
    text2 = build(stmts, cw)
    s2, T2, e2 = run(text2)
    nlines = sum(len(st[0]) for st in stmts[:i+1])
    if s2['passed'] or not s2['failed']:
        stats['FALSE_PASS_' + c] += 1
        if stats['FALSE_PASS_' + c] <= 2: print('FALSE PASS', c, '\n' + text2)
        continue
    if not isinstance(s2['exc_info'][1], checker.GotWantException): stats['WRONG_EXC'] += 1
    if T2 != list(range(1, i+2)):
        stats['TRACE_AFTER_FAIL_BAD'] += 1
        if stats['TRACE_AFTER_FAIL_BAD'] <= 2: print('TRACE after fail', T2, i, '\n' + text2)
    stats['fail_ok_' + c] += 1
for k, v in sorted(stats.items()): print(k, v)
