class BadRepr:
    def __repr__(self):
        raise ValueError('repr boom')
def boom():
    raise KeyError('from module code')
def ok1():
    """
    >>> print('ok1')
    ok1
    """
def bad_repr():
    """
    >>> x = 1
    >>> BadRepr()
    something
    """
def bad_directive():
    """
    >>> x = 1
    >>> y = 2  # xdoctest: +REQUIRES(notatag)
    >>> print(y)
    """
def bad_directive_block():
    """
    >>> x = 1
    >>> # xdoctest: +REQUIRES(env:A:B)
    >>> print(y)
    """
def called():
    """
    >>> x = 1
    >>> print('a')
    a
    >>> boom()
    """
def ok2():
    """
    >>> print('ok2')
    ok2
    """
