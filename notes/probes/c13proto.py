import random, sys, collections
from xdoctest import parser as P, exceptions
rng = random.Random(int(sys.argv[1]) if len(sys.argv) > 1 else 0)
N = int(sys.argv[2]) if len(sys.argv) > 2 else 5000
WORDS = ['alpha', 'beta text here', 'Returns: something', 'see >> below', '.... dots', 'x = 1 is code-like prose', '1', '[1, 2]', 'Example:', 'Args:', 'foo (int): bar', '<BLANKLINE>', 'a  b', 'ends with colon:', '>>>nospace', '...nospace']
STMTS = [  # (lines)
    ['x = 1'], ['print(x)'], ['y = [', '    1,', '    2]'], ['for i in range(2):', '    print(i)'], ['def f():', '    return 1'],
    ['s = """a', 'b"""'], ['z = (1 +', '     2)'], ['# comment'], ['x = 1; y = 2'], ['if x:', '    pass', 'else:', '    pass'], ['@dec', 'def g():', '    pass'], ['f(1)  # xdoctest: +SKIP'],
]
def gen():
    B = rng.choice([0, 4])
    L = []  # (label, line)
    state = 'text'
    nseg = rng.randint(1, 7)
    I = None
    def add(label, ind, txt): L.append((label, ' ' * ind + txt if txt else ''))
    for _ in range(nseg):
        kind = rng.choice(['prose', 'example', 'example', 'blank'])
        if kind == 'blank' or (kind == 'prose' and state in ('src', 'want') ):
            # need separation before prose: blank or deindent
            if state in ('src', 'want') and I > B and rng.random() < 0.4 and kind == 'prose':
                add('text', B, rng.choice(WORDS)); state = 'text'; continue   # de-indented line terminates
            add('text', 0, ''); state = 'text'
            if kind == 'blank': continue
        if kind == 'prose':
            for _ in range(rng.randint(1, 3)):
                add('text', rng.choice([B, B + 4]), rng.choice(WORDS))
            state = 'text'
        elif kind == 'example':
            newI = rng.choice([B, B + 4, B + 8])
            if state in ('src', 'want') and newI != I:
                if newI < I: pass  # deindented prompt: in want state '>>>' => dsrc; in src state: line_indent<state_indent => TEXT!  avoid
                newI = I
            I = newI
            for _ in range(rng.randint(1, 4)):
                st = rng.choice(STMTS); style = rng.choice(['new', 'old', 'oldterm'])
                add('src', I, '>>> ' + st[0])
                for ln in st[1:]:
                    add('src', I, ('>>> ' if style == 'new' else '... ') + ln)
                lastpref = '>>>' if (style == 'new' or len(st) == 1) else '...'
                if style == 'oldterm' and len(st) > 1:
                    add('src', I, '...'); lastpref = '...'
                state = 'src'
                if rng.random() < 0.45:
                    nw = rng.randint(1, 3)
                    for j in range(nw):
                        w = rng.choice(WORDS + ['...', '... more', 'out'])
                        if j == 0 and (w.startswith('... ') or (w == '...' and lastpref == '...')): w = 'out'
                        if w.startswith('>>>') and not w.startswith('>>>n'): w = 'out'
                        add('want', rng.choice([I, I, I + 2]), w)
                    state = 'want'
    return L
def expected(L):
    lines = [l for _, l in L]
    inds = [len(l) - len(l.lstrip(' ')) for l in lines if l.strip()]
    m = min(inds) if inds else 0
    return [(lab, l[m:] if l.strip() else (l[m:] if len(l) >= m else '')) for lab, l in L]
stats = collections.Counter(); shown = 0
for it in range(N):
    L = gen()
    text = '\n'.join(l for _, l in L)
    exp = expected(L)
    if text.endswith('\n') or (L and L[-1][1] == ''): exp = exp[:len(text.splitlines())]
    try:
        parts = P.DoctestParser().parse(text)
    except exceptions.DoctestParseError as ex:
        stats['parse_error'] += 1
        if stats['parse_error'] <= 3: print('PARSE ERROR', ex.orig_ex, '\n' + text + '\n----')
        continue
    got = []  # (label, line) with chunk-dedent recorded
    ok = True
    pos = 0
    why = None
    for p in parts:
        if isinstance(p, str):
            for l in p.split('\n'): got.append(('text', l, 0))
        else:
            if p.line_offset != len(got): ok = False; why = ('offset', p.line_offset, len(got))
            for l in p.orig_lines: got.append(('src', l, 1))
            for l in (p.want_lines or []): got.append(('want', l, 1))
    if len(got) != len(exp): ok = False; why = why or ('nlines', len(got), len(exp))
    else:
        for (gl, gline, ded), (el, eline) in zip(got, exp):
            if gl != el: ok = False; why = why or ('label', gl, el, eline); break
            if ded:
                if gline.strip() != eline.strip() : ok = False; why = why or ('content', gline, eline); break
            else:
                if gline != eline: ok = False; why = why or ('text', gline, eline); break
    if ok: stats['ok'] += 1
    else:
        stats['BAD_' + why[0]] += 1
        if shown < 6:
            shown += 1; print('MISMATCH', why, '\n' + text + '\n--- got labels:', [(a, b) for a, b, c in got], '\n=====')
print(dict(stats))
