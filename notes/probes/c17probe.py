import os, tempfile, sys, importlib.machinery as M
from xdoctest import utils
from xdoctest.utils import util_import as ui
root = tempfile.mkdtemp()
def touch(rel, txt=''):
    p = os.path.join(root, rel); os.makedirs(os.path.dirname(p), exist_ok=True); open(p,'w').write(txt)
touch('pkg_a/__init__.py'); touch('pkg_a/mod_1.py'); touch('pkg_a/sub/__init__.py'); touch('pkg_a/sub/leaf.py'); touch('pkg_a/__main__.py')
touch('pkg_a/noinit/inner.py'); touch('pkg_a/noinit/deep/__init__.py'); touch('pkg_a/noinit/deep/x.py')
touch('top_mod.py'); touch('clash/__init__.py'); touch('clash.py'); touch('nsdir/m.py'); touch('half.py'); touch('half/inner.py')
touch('pkg_a/sub/__main__.py')
def ref(name):
    parts = name.split('.'); path = [root]; spec = None
    for i, p in enumerate(parts):
        spec = None
        for d in path:
            spec = M.FileFinder(d, (M.SourceFileLoader, M.SOURCE_SUFFIXES), (M.ExtensionFileLoader, M.EXTENSION_SUFFIXES)).find_spec('.'.join(parts[:i+1]))
            if spec is not None and spec.loader is not None: break
            spec = None
        if spec is None: return None
        if i < len(parts) - 1:
            if not spec.submodule_search_locations: return None
            path = list(spec.submodule_search_locations)
    return spec.origin
names = ['pkg_a', 'pkg_a.mod_1', 'pkg_a.sub', 'pkg_a.sub.leaf', 'pkg_a.__main__', 'pkg_a.sub.__main__', 'pkg_a.noinit', 'pkg_a.noinit.inner', 'pkg_a.noinit.deep', 'pkg_a.noinit.deep.x', 'top_mod', 'clash', 'nsdir', 'nsdir.m', 'half', 'half.inner', 'absent', 'pkg_a.absent', 'top_mod.x', 'pkg_a.__init__']
for n in names:
    r = ref(n)
    got = ui.modname_to_modpath(n, sys_path=[root])
    got_init = ui.modname_to_modpath(n, sys_path=[root], hide_init=False)
    back = None
    if got is not None:
        back = ui.modpath_to_modname(got)
        sp = ui.split_modpath(got)
    print(f'{n:22s} ref={r and os.path.relpath(r, root)!s:28s} got={got and os.path.relpath(got, root)!s:22s} got_init={got_init and os.path.relpath(got_init, root)!s:28s} back={back} split={got and (os.path.relpath(sp[0], root), sp[1])}')
