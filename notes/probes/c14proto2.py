import random, warnings, io, contextlib, collections, traceback, sys, signal
from xdoctest import core, parser, exceptions
FR = ['>>> ', '... ', '>>>', '...', 'x = 1', 'print(x)', '(', ')', '[', ']', '{', '}', "'", '"', "'''", '"""', '\\', '\n', '\n', '\n', ' ', '    ', '\t',
      '# xdoctest: +SKIP', '# xdoctest: +REQUIRES(', '# doctest: +ELLIPSIS', 'Example:', 'Args:', 'def f():', 'if x:', 'else:', 'return', 'lambda', 'class A:', '@', ';', ':', ',', '=', 'a', '1', '\x00', '\x0c', '\r', 'é', 'import', 'await', 'async def f():', 'for i in x:', 'Traceback (most recent call last):', '<BLANKLINE>', 'Returns:', '  ', '#', '+', '-', 'xdoc:', 'f"{', '}"', "b'", 'try:', 'except:', 'with a as b:', '0x', '1e', '$', '?', '!']
rng = random.Random(int(sys.argv[1]) if len(sys.argv) > 1 else 0)
def gen_old():
    return ''.join(rng.choice(FR) for _ in range(rng.randint(1, 25)))

CODE = ['x = 1', 'print(x)', 'x = (1,', '2)', "s = \'\'\'", "\'\'\'", 'def f():', '    return 1', 'if x:', '    pass', 'else:', 'x = [', ']', 'f(', 'x = "a', "y = 'b", 'x = 1 \\', 'lambda: (', '@dec', 'class A:', 'return 5', 'await f()', 'async def g():', 'for i in range(2):', '    print(i)', 'try:', 'except Exception:', '1 +', '3 = 5', 'print(', '))', 'x = {', '}', '# comment', '# xdoctest: +SKIP', 'x = 1  # xdoctest: +SKIP', '# xdoctest: +REQUIRES(module:os', '# xdoctest: +REQUIRES(env:A==1)', '# xdoctest: bogus', '# doctest: +ELLIPSIS, +FOO', 'x = 1 # xdoctest: +REQUIRES(--flag))', '', ' ', '\x0c', 'x\x00y', 'é = 1', '\tx = 1', '"""', 'f"{x!r}"', 'f"{', 'x = 1;', ';', 'print(x) ; y', '0x', '1_', 'a.b.c(', '*a, b = 1, 2', 'x: int = 1', 'global x', 'del x', 'import os', 'from os import *', 'yield 1', 'break', 'continue', 'match x:', '    case 1: pass', 'with a as b: pass', 'print("\\', "b'\\x'", 'x = 1 if', '->', '...', 'Ellipsis']
TEXT = ['some prose', 'Example:', 'Examples:', 'Args:', '    a (int): desc', 'Returns:', 'Doctest:', 'Script:', 'Benchmark:', 'DisableDoctest:', '', '', '1', '[1, 2]', 'Traceback (most recent call last):', '    ...', 'ValueError: x', '<BLANKLINE>', '...', 'Note::', 'Example::', 'Example :', ' Example:', 'Todo', '\x0c', '\r', 'text >>> inline', '>>>nospace', '....', '... x', '>> x', '>>>> x']
def gen():
    lines = []
    base = rng.choice([0, 0, 4, 8])
    for _ in range(rng.randint(1, 14)):
        ind = ' ' * (base + rng.choice([0, 0, 0, 4, 4, 2, 8, -4, 1]) ) if base + 0 >= 0 else ''
        if rng.random() < 0.1: ind = '\t'
        k = rng.random()
        if k < .45: ln = ind + '>>> ' + rng.choice(CODE)
        elif k < .65: ln = ind + '... ' + rng.choice(CODE)
        elif k < .72: ln = ind + rng.choice(['>>>', '...', '>>> ', '... ']) 
        elif k < .8: ln = ind + rng.choice(CODE)
        else: ln = ind + rng.choice(TEXT)
        lines.append(ln)
    return '\n'.join(lines) + rng.choice(['', '\n', '\n    '])

esc = collections.Counter(); ex = {}
class Hang(Exception): pass
def onalarm(*a): raise Hang()
signal.signal(signal.SIGALRM, onalarm)
N = int(sys.argv[2]) if len(sys.argv) > 2 else 20000
nparts = 0; nerr = 0
for i in range(N):
    s = gen()
    signal.alarm(10)
    try:
        try:
            parts = parser.DoctestParser().parse(s)
            nparts += any(not isinstance(p, str) for p in parts)
        except exceptions.DoctestParseError:
            nerr += 1
        except Hang:
            esc[('parse', 'HANG')] += 1; ex.setdefault(('parse','HANG'), s)
        except BaseException as e:
            k = ('parse', type(e).__name__); esc[k] += 1; ex.setdefault(k, s)
        for style in ['auto', 'google', 'freeform']:
            try:
                with warnings.catch_warnings(record=True) as wl, contextlib.redirect_stdout(io.StringIO()):
                    warnings.simplefilter('always')
                    exs = list(core.parse_docstr_examples(s, callname='f', style=style))
            except Hang:
                esc[(style, 'HANG')] += 1; ex.setdefault((style,'HANG'), s)
            except BaseException as e:
                tb = traceback.extract_tb(e.__traceback__)[-1]
                k = (style, type(e).__name__, tb.filename.split('/')[-1], tb.lineno); esc[k] += 1; ex.setdefault(k, s)
    finally:
        signal.alarm(0)
print('N', N, 'with doctest parts', nparts, 'parse errors', nerr)
for k, v in esc.most_common(): print(k, v, repr(ex[k]))
