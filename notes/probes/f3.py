from xdoctest import core, static_analysis as sa
import textwrap, tempfile, os
src = textwrap.dedent('''
    async def afunc():
        """
        >>> print('afunc')
        """
        def inner():
            """
            >>> print('inner leaks')
            """
    class K:
        async def am(self):
            """
            >>> print('K.am')
            """
            def inner2():
                """
                >>> print('inner2 leaks')
                """
        def m(self):
            R"""
            >>> print('K.m')
            """
    def g():
        R"""
        text
        >>> print('g')
        """
    def h():
        u"""
        text
        >>> print('h')
        """
    def i(): """one
        >>> print('i')
        """
''').lstrip('\n')
d = tempfile.mkdtemp()
p = os.path.join(d, 'mod_f3.py')
open(p,'w').write(src)
lines = src.splitlines()
for an in ['static', 'dynamic']:
    print(an)
    for e in core.parse_doctestables(p, style='freeform', analysis=an):
        print('  ', e.unique_callname, e.lineno, repr(lines[e.lineno-1]) if an=='static' else '')
