import itertools, sys, io, contextlib, warnings, collections, os
from xdoctest import core
os.environ['VP_MET'] = '1'; os.environ.pop('VP_UNSET_B', None)
A = 'module:vp_nonexistent_a'; B = 'env:VP_UNSET_B==1'; MET = 'env:VP_MET==1'
DIRS = [('SKIP', True), ('SKIP', False), ('REQ', True, MET), ('REQ', False, MET), ('REQ', True, A), ('REQ', False, A), ('REQ', True, B), ('REQ', False, B)]
def dtext(d):
    if d[0] == 'SKIP': return ('+' if d[1] else '-') + 'SKIP'
    return ('+' if d[1] else '-') + 'REQUIRES(%s)' % d[2]
EVENTS = [('block', d) for d in DIRS] + [('inline', d, shape) for d in DIRS for shape in ('one', 'multi_first', 'multi_last', 'compound', 'deco', 'want')] + [('stmt', shape) for shape in ('one', 'multi', 'want')]
def render(ev, k):
    """returns lines"""
    def st(shape, com):
        c = ('  # xdoctest: ' + com) if com else ''
        if shape == 'one': return [f'>>> T.append({k}){c}']
        if shape == 'multi' : return [f'>>> T.append(', f'...     {k})']
        if shape == 'multi_first': return [f'>>> T.append({c}', f'...     {k})']
        if shape == 'multi_last': return [f'>>> T.append(', f'...     {k}){c}']
        if shape == 'compound': return [f'>>> if True:{c}', f'...     T.append({k})']
        if shape == 'deco': return [f'>>> @(lambda fn: fn())', f'... def f{k}():{c}', f'...     T.append({k})']
        if shape == 'want': return [f'>>> print(T.append({k})){c}', 'WANT%d' % k]
    if ev[0] == 'block': return ['>>> # xdoctest: ' + dtext(ev[1])]
    if ev[0] == 'inline': return st(ev[2], dtext(ev[1]))
    return st(ev[1], None)
def model(seq, default_skip=False):
    skip = default_skip; req = set(); ran = []
    for k, ev in enumerate(seq, 1):
        if ev[0] == 'block':
            d = ev[1]
            if d[0] == 'SKIP': skip = d[1]
            elif d[2] != MET:
                (req.add if d[1] else req.discard)(d[2])
        else:
            s2, r2 = skip, set(req)
            if ev[0] == 'inline':
                d = ev[1]
                if d[0] == 'SKIP': s2 = d[1]
                elif d[2] != MET: (r2.add if d[1] else r2.discard)(d[2])
            if not s2 and not r2: ran.append(k)
    return ran
stats = collections.Counter(); shown = 0
maxlen = int(sys.argv[1]) if len(sys.argv) > 1 else 2
stmt_events = [e for e in EVENTS if e[0] != 'block']
for n in range(1, maxlen + 1):
    for seq in itertools.product(EVENTS, repeat=n):
        if not any(e[0] != 'block' for e in seq): continue
        for default_skip in (False, True):
            lines = []
            for k, ev in enumerate(seq, 1): lines += render(ev, k)
            lines += [f'>>> T.append(99)']
            text = '\n'.join(lines) + '\n'
            exp0 = model(list(seq), default_skip)
            for k in range(1, len(seq) + 1):
                text = text.replace('WANT%d\n' % k, 'None\n' if k in exp0 else 'WRONG WANT\n')
            exp = model(list(seq) + [('stmt', 'one')], default_skip); exp = [99 if x == len(seq) + 1 else x for x in exp]
            T = []
            with warnings.catch_warnings(record=True), contextlib.redirect_stdout(io.StringIO()):
                warnings.simplefilter('always')
                e = list(core.parse_docstr_examples(text, callname='c', style='freeform'))[0]
                e.mode = 'native'; e.global_namespace['T'] = T
                if default_skip: e.config['default_runtime_state'] = {'SKIP': True}
                s = e.run(verbose=0, on_error='return')
            verdict = 'failed' if s['failed'] else ('skipped' if s['skipped'] else 'passed')
            expv = 'passed' if exp else 'skipped'
            stats['n'] += 1
            if T != exp or verdict != expv:
                stats['BAD'] += 1
                if shown < 8: shown += 1; print('BAD', T, exp, verdict, expv, s['exc_info'] and repr(s['exc_info'][1])[:100], '\n' + text)
print(dict(stats))
