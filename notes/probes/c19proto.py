import sys, io, contextlib, warnings, collections, ast, os, tempfile, re, textwrap, shutil
import c18gen as K
from xdoctest import runner, core
K.G.rng.seed(int(sys.argv[1]) if len(sys.argv) > 1 else 0)
N = int(sys.argv[2]) if len(sys.argv) > 2 else 300
rng = K.G.rng
stats = collections.Counter(); shown = collections.Counter()
d = tempfile.mkdtemp()
try:
  for it in range(N):
    nd = rng.randint(1, 4); items = []; src = ['import os', '']
    for j in range(nd):
        groups, wants, text, prog = K.mk()
        if '\\' in text: continue   # keep docstring free of escapes: use raw string anyway
        disabled = rng.random() < 0.15
        body = textwrap.indent(text if not disabled else '>>> # DISABLE_DOCTEST\n' + text, '        ')
        # docstring text was generated with its own indent; normalise to 8 spaces under Example:
        src += [f'def fn{j}():', '    r"""', '    Example:'] + [('        ' + ln.strip('\n')) if ln.strip() else '' for ln in (('>>> # DISABLE_DOCTEST\n' if disabled else '') + textwrap.dedent(text.expandtabs())).split('\n')] + ['    """', '']
        items.append((f'fn{j}', disabled, prog, wants))
    modname = f'mod_c19_{it}'
    path = os.path.join(d, modname + '.py'); open(path, 'w').write('\n'.join(src) + '\n')
    buf = io.StringIO()
    with warnings.catch_warnings(record=True), contextlib.redirect_stdout(buf):
        warnings.simplefilter('always')
        runner.doctest_module(path, 'dump', argv=[''], style='google', verbose=0)
    out = buf.getvalue()
    try:
        tree = ast.parse(out)
    except SyntaxError as ex:
        stats['BAD_syntax'] += 1
        if shown['s'] < 3: shown['s'] += 1; print('SYNTAX', ex, '\n' + out[:1500])
        continue
    funcs = [n for n in tree.body if isinstance(n, ast.FunctionDef)]
    enabled = [x for x in items if not x[1]]
    if len(funcs) != len(enabled): stats['BAD_count'] += 1; print('COUNT', len(funcs), len(enabled)); continue
    lines = out.split('\n'); ok = True
    for fnode, (name, _, prog, wants) in zip(funcs, enabled):
        seg = lines[fnode.lineno:fnode.end_lineno]   # after def line
        seg = [l[4:] if l.startswith('    ') else l for l in seg]
        assert seg[0] == '"""' and seg[2] == '"""', seg[:3]
        seg = seg[3:]
        if seg and re.match(r'from \S+ import ', seg[0]): seg = seg[1:]
        body = []; wantc = []; i = 0
        while i < len(seg):
            if seg[i] == '# doctest want:':
                i += 1; cur = []
                while i < len(seg) and seg[i].startswith('# ') : cur.append(seg[i][2:]); i += 1
                wantc.append(cur)
            else: body.append(seg[i]); i += 1
        expb = [l for l in prog]
        if [l for l in body if l.strip()] != [l for l in expb if l.strip()]:
            ok = False
            if shown['b'] < 3: shown['b'] += 1; print('BODY DIFF', name, '\n', body, '\n', expb)
        expw = [[x.strip() for x in w] for w in wants if w]
        if [[x.strip() for x in w] for w in wantc] != expw:
            ok = False
            if shown['w'] < 3: shown['w'] += 1; print('WANT DIFF', wantc, expw)
    stats['ok' if ok else 'BAD_content'] += 1
finally:
    shutil.rmtree(d)
print(dict(stats))
