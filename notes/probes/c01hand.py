from xdoctest import core
import textwrap, io, contextlib, warnings
def run(doc, label=''):
    T = []
    with warnings.catch_warnings(record=True) as wl:
        warnings.simplefilter('always')
        buf = io.StringIO()
        with contextlib.redirect_stdout(buf):
            ex = list(core.parse_docstr_examples(doc, callname='t', style='freeform'))
    if not ex:
        print(label, 'NO EXAMPLES; warnings:', [str(w.message)[:150] for w in wl]); return
    for e in ex:
        e.mode = 'native'
        e.global_namespace['T'] = T
        try:
            s = e.run(verbose=0, on_error='return')
        except BaseException as exn:
            print(label, 'RAISED', repr(exn)); continue
        print(label, 'passed' if s['passed'] else ('skipped' if s['skipped'] else 'FAILED ' + repr(s['exc_info'][1])), 'T=', T, 'out=', repr(''.join(v for v in e.logged_stdout.values() if v)), 'modes', [p.compile_mode for p in e._parts])

run(">>> T.append(1)\n>>> x = [\n>>>     T.append(2),\n>>>     3]\n>>> T.append(4)\n", 'bracket-newstyle')
run(">>> T.append(1)\n>>> x = [\n...     T.append(2),\n...     3]\n>>> T.append(4)\n", 'bracket-old')
run(">>> T.append(1)\n>>> x = [\n    T.append(2),\n    3]\n>>> T.append(4)\n", 'bracket-unprefixed')
run(">>> T.append(1)\n>>> s = '''\n    abc\n  def\n    '''\n>>> T.append(len(s))\n", 'string-unprefixed')
run(">>> T.append(1)\n>>> s = '''\nabc\n'''\n>>> T.append(len(s))\n", 'string-col0')
run("\t>>> T.append(1)\n\t>>> T.append(2)\n", 'tabs')
run("    >>> T.append(1)\n\n    prose here\n\n    >>> T.append(2)\n    >>> print('a')\n    a\n    >>> T.append(3)\n", 'prose')
run(">>> @staticmethod\n... def f():\n...     T.append(1)\n>>> f()\n", 'decor-old')
run(">>> print('x')\nx\n>>> @staticmethod\n>>> def f():\n>>>     T.append(1)\n>>> f()\n", 'decor-after-want')
run(">>> x = 1 + \\\n...     2\n>>> T.append(x)\n", 'backslash')
run(">>> if True:\n...     T.append(1)\n... else:\n...     T.append(2)\n...\n>>> T.append(3)\n", 'if-else-terminator')
run(">>> for i in range(2):\n>>>     T.append(i)\n>>> T.append(9)\n", 'for-new')
run(">>> import asyncio\n>>> async def co():\n>>>     T.append(1)\n>>>     return 5\n>>> r = await co()\n>>> T.append(r)\n", 'await')
run(">>> x = (1,  # comment in bracket\n>>>      2)\n>>> T.append(x)\n", 'comment-in-bracket')
run(">>> x = (1,  # xdoctest: +SKIP\n>>>      2)\n>>> T.append(x)\n", 'directive-in-bracket')
run(">>> s = '# xdoctest: +SKIP'\n>>> T.append(s)\n", 'directive-in-string')
run(">>> T.append(1)  # xdoctest: +SKIP\n>>> T.append(2)\n", 'inline-skip')
run(">>> # just a comment\n>>> # another\n", 'comment-only')
run(">>> T.append(1); T.append(2)\n>>> 5\n5\n", 'semicolon')
run(">>> T.append(1); 5\n5\n", 'semicolon-eval')
run(">>> def f():\n...     return 3\n>>> f()\n3\n>>> T.append(1)\n", 'classic')
run(">>> class A:\n>>>     def m(self):\n>>>         T.append(1)\n>>>\n>>>     def n(self):\n>>>         T.append(2)\n>>> A().m(); A().n()\n", 'class-blank-prompt')
run(">>> try:\n...     T.append(1)\n... finally:\n...     T.append(2)\n>>> with open('/dev/null') as f: T.append(3)\n", 'try-with')
run(">>> match 3:\n...     case 3:\n...         T.append(3)\n", 'match')
run(">>> x = f'{1!r:>{4}}' + \"'''\"\n>>> T.append(x)\n", 'fstring-tricky')
run(">>> T.append('>>> not code')\n>>> T.append('''... also\n... not code''')\n", 'prompt-in-string')
