import re, itertools, sys, collections
from multiprocessing import Pool
from xdoctest import checker, directive

FLAGS = ['ELLIPSIS','NORMALIZE_WHITESPACE','IGNORE_WHITESPACE','NORMALIZE_REPR','DONT_ACCEPT_BLANKLINE']

ANSI = re.compile(r'\x1b\[[0-9;]*[A-Za-z]')
PFX = re.compile(r'''(?<![A-Za-z0-9_])[uUbB](?=[rR]?['"])''')
def ell_ref(g, w):
    if '...' not in w: return g == w
    pieces = re.split(r'\s*\.\.\.\s*', w)
    pat = '.*'.join(re.escape(p) for p in pieces)
    return re.fullmatch(pat, g, flags=re.DOTALL) is not None
def M(g, w, f):
    return g == w or (f['ELLIPSIS'] and ell_ref(g, w))
def unq(s):
    for q in '"\'':
        if len(s) >= 2 and s[0] == q and s[-1] == q: return s[1:-1]
    return None
PFX_U = re.compile(r'''(\W|^)[uU]([rR]?['"])''')
PFX_B = re.compile(r'''(\W|^)[bB]([rR]?['"])''')
def ref(got, want, f, variant=0):
    if not want: return True
    if got == want: return True
    g = ANSI.sub('', got); w = ANSI.sub('', want)
    if variant == 0:
        g = PFX.sub('', g); w = PFX.sub('', w)
    else:
        g = PFX_B.sub(r'\1\2', PFX_U.sub(r'\1\2', g)); w = PFX_B.sub(r'\1\2', PFX_U.sub(r'\1\2', w))
    if not f['DONT_ACCEPT_BLANKLINE']:
        w = '\n'.join('' if ln.strip() == '<BLANKLINE>' else ln for ln in w.split('\n'))
    g = '\n'.join(ln.rstrip(' \t') for ln in g.split('\n')).rstrip()
    w = '\n'.join(ln.rstrip(' \t') for ln in w.split('\n')).rstrip()
    if f['NORMALIZE_WHITESPACE'] or f['IGNORE_WHITESPACE']:
        g = ' '.join(g.split()); w = ' '.join(w.split())
    if f['IGNORE_WHITESPACE']:
        g = re.sub(r'\s', '', g); w = re.sub(r'\s', '', w)
    if M(g, w, f): return True
    if f['NORMALIZE_REPR']:
        ug, uw = unq(g), unq(w)
        if ug is not None and M(ug, w, f): return True
        if uw is not None and M(g, uw, f): return True
    return False

def mkstate(f):
    rs = directive.RuntimeState()
    for k, v in f.items(): rs[k] = v
    return rs

ALPH = sys.argv[1] if len(sys.argv) > 1 else "au \n\t.'\""
N = int(sys.argv[2]) if len(sys.argv) > 2 else 3
strings = [''.join(t) for n in range(0, N+1) for t in itertools.product(ALPH, repeat=n)]
combos = [dict(zip(FLAGS, bits)) for bits in itertools.product([False, True], repeat=5)]
states = [mkstate(f) for f in combos]

def work(wi):
    want = strings[wi]
    out = []
    if not want: return out
    for got in strings:
        for f, rs in zip(combos, states):
            a = bool(checker.check_output(got, want, rs))
            b = bool(ref(got, want, f)); b2 = bool(ref(got, want, f, 1))
            if b != b2: continue
            if a != b:
                out.append((got, want, tuple(k for k in FLAGS if f[k]), a, b))
    return out

if __name__ == '__main__':
    with Pool(16) as p:
        res = p.map(work, range(len(strings)), chunksize=8)
    dis = [d for r in res for d in r]
    print('strings', len(strings), 'pairs', len(strings)**2, 'disagreements', len(dis))
    # classify by (got,want)
    pairs = collections.OrderedDict()
    for g,w,fl,a,b in dis:
        pairs.setdefault((g,w,a,b), []).append(fl)
    print('distinct pairs', len(pairs))
    for (g,w,a,b), fls in list(pairs.items())[:60]:
        print(repr(g), repr(w), 'impl', a, 'ref', b, 'nflagsets', len(fls), fls[0])
