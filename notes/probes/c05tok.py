import random, collections, sys
sys.argv = sys.argv[:1]
import c05proto as P
from xdoctest import checker
TOK = ['a','x',' ','\n','\t','...','.',"'",'"','u','b','r','\x1b[31m','\x1b[0m','\n<BLANKLINE>\n', '<BLANKLINE>']
rng = random.Random(5)
def rs(n): return ''.join(rng.choice(TOK) for _ in range(rng.randint(0,n)))
def mutate(w):
    # derive got from want
    toks = list(w)
    out = w
    k = rng.random()
    if k < .2: out = w.replace('...', rs(3))
    elif k < .4: out = w.replace(' ', '  ').replace('\n', ' \n')
    elif k < .5: out = w.replace('<BLANKLINE>', '')
    elif k < .6: out = "'" + w + "'"
    elif k < .7: out = w.replace("u'", "'").replace('b"','"')
    elif k < .8: out = '\x1b[31m' + w + '\x1b[0m'
    return out
dis = collections.Counter(); ex = {}
n = 0; nmatch = 0
for i in range(200000):
    want = rs(7)
    if not want: continue
    got = mutate(want) if rng.random() < .7 else rs(7)
    if '<BLANKLINE>' in got: continue
    for f, st in zip(P.combos, P.states):
        a = bool(checker.check_output(got, want, st)); b = bool(P.ref(got, want, f))
        n += 1; nmatch += a
        if a != b:
            key = (a, b, tuple(k for k in P.FLAGS if f[k] and k in ('NORMALIZE_REPR','DONT_ACCEPT_BLANKLINE')))
            dis[key] += 1; ex.setdefault(key, (got, want, {k for k in f if f[k]}))
print(n, nmatch, dis)
for k, v in ex.items(): print(k, repr(v[0]), repr(v[1]), v[2])
