import random, io, contextlib, os, sys, warnings, copy
from xdoctest import core, directive
path = '/tmp/scratch/c11/mod_c11probe.py'
pristine = copy.deepcopy(directive.DEFAULT_RUNTIME_STATE)
def expected(name, phase):
    if name == 'd_read': return 'fail:NameError'
    if name == 'd_badwant': return 'fail:GotWantException'
    if name == 'd_phase': return 'pass' if phase == 1 else 'fail:GotWantException'
    return 'pass'
pool = {e.callname: e for e in core.parse_doctestables(path, style='freeform')}
for e in pool.values(): e.mode = 'native'
rng = random.Random(int(sys.argv[1]) if len(sys.argv) > 1 else 0)
names = sorted(pool); phase = 1; os.environ['VP_PHASE'] = '1'; bad = 0
import importlib
for step in range(600):
    if rng.random() < 0.15:
        phase = rng.choice([1, 2]); os.environ['VP_PHASE'] = str(phase); continue
    n = rng.choice(names)
    e = pool[n] if rng.random() < 0.7 else {x.callname: x for x in core.parse_doctestables(path, style='freeform')}[n]
    e.mode = 'native'
    so = sys.stdout
    with contextlib.redirect_stdout(io.StringIO()):
        inner = sys.stdout
        s = e.run(verbose=0, on_error='return')
        assert sys.stdout is inner, 'stdout leaked'
    got = 'pass' if s['passed'] else ('skip' if s['skipped'] else 'fail:' + type(s['exc_info'][1]).__name__)
    mod = sys.modules['mod_c11probe']
    problems = []
    if got != expected(n, phase): problems.append((got, expected(n, phase)))
    if mod.G != 'orig' or mod.getG() != 'orig': problems.append('G rebound')
    if directive.DEFAULT_RUNTIME_STATE != pristine: problems.append('DEFAULT state changed')
    if n == 'd_badwant':
        txt = '\n'.join(e.repr_failure())
        if 'unified diff' not in txt: problems.append('report style leaked: ' + txt[-200:])
    if problems: bad += 1; print(step, n, phase, problems)
print('bad', bad)
