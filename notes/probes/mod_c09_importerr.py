def f():
    """
    >>> print(1)
    1
    """
def g():
    """
    >>> print(2)
    2
    """
raise RuntimeError('cannot import me')
