import sys, io, contextlib, warnings, collections, ast, asyncio, os, tempfile, re
import c01gen as G
from inspect import CO_COROUTINE
from xdoctest import core, runner


rng = G.rng
stats = collections.Counter(); shown = collections.Counter()
def mk():
    n = rng.randint(1, 6)
    groups = [G.stmt(k, None) for k in range(1, n + 1)]
    text0, prog = G.layout(groups, '')
    ns2 = {'T': []}; since = ''; wants = []
    for (c, L, valexpr) in groups:
        plain = [x.replace('UNPREF4', '').replace('UNPREF0', '') for x in L]
        code = compile('\n'.join(plain) + '\n', '<ref>', 'exec', flags=ast.PyCF_ALLOW_TOP_LEVEL_AWAIT, dont_inherit=True)
        buf = io.StringIO()
        with contextlib.redirect_stdout(buf):
            if code.co_flags & CO_COROUTINE: asyncio.run(eval(code, ns2))
            else: exec(code, ns2)
        since += buf.getvalue(); w = None
        if rng.random() < 0.5 and since: w = since.rstrip('\n').split('\n'); since = ''
        wants.append(w)
    indent = rng.choice(['', '    '])
    text, prog = G.layout(groups, indent, wants)
    return groups, wants, text, prog
