import random, sys, io, contextlib, warnings, collections, ast, asyncio, textwrap
from inspect import CO_COROUTINE
from xdoctest import core
rng = random.Random(int(sys.argv[1]) if len(sys.argv) > 1 else 0)
N = int(sys.argv[2]) if len(sys.argv) > 2 else 2000

def stmt(k, have):
    t = f"T.append({k})"
    kinds = ['call','assign','print','print2','mlist','mdict','mcall','tstr','tstr_unpref','tstr_col0','if','for','while','try','with','def','class','deco','semi','comment','comment_in_br','lambda','fstr','promptstr','backslash','oneline_if','nested','await','asyncfor','asyncwith','aug','ann','walrus','star','imp','assert','del','global','match','dirstr','valexpr']
    c = rng.choice(kinds)
    L = None; valexpr = False
    if c == 'call': L = [t]
    elif c == 'assign': L = [f"v{k} = {t} or {k}"]
    elif c == 'print': L = [f"print('o{k}', {t})"]
    elif c == 'print2': L = [f"print('o{k}a\\no{k}b', {t})"]
    elif c == 'mlist': L = [f"v{k} = [", f"    {t},", f"    {k},", "]"]
    elif c == 'mdict': L = [f"v{k} = {{'a': {t},", f"       'b': [1,", "             2]}"]
    elif c == 'mcall': L = [f"print('m{k}',", f"      {t},", "      sep='-')"]
    elif c == 'tstr': L = [f"v{k} = ({t}, '''line1 {k}", "  line2", "line3''')"]
    elif c == 'tstr_unpref': L = [f"v{k} = ({t}, '''line1 {k}", "UNPREF4     indented text", "UNPREF4 more", "''')"]
    elif c == 'tstr_col0': L = [f"v{k} = ({t}, '''", "UNPREF0zero col text", "UNPREF0ab", "''')"]
    elif c == 'if': L = [f"if {k} > 0:", f"    {t}", "elif False:", "    pass", "else:", "    T.append(-1)"]
    elif c == 'for': L = [f"for i{k} in range(2):", f"    T.append(({k}, i{k}))", "else:", f"    v{k} = 'done'"]
    elif c == 'while': L = [f"n{k} = 0", f"while n{k} < 2:", f"    n{k} += 1", f"    T.append(({k}, n{k}))"]
    elif c == 'try': L = ["try:", f"    {t}", "    1 / 0", "except ZeroDivisionError as e:", f"    print('caught{k}')", "finally:", f"    v{k} = 1"]
    elif c == 'with': L = ["with open('/dev/null') as fh:", f"    {t}"]
    elif c == 'def': L = [f"def f{k}(a, b=2):", "    '''doc'''", f"    T.append(({k}, a))", "", "    return a + b", f"v{k} = f{k}(1)"]
    elif c == 'class': L = [f"class C{k}:", "    x = 1", "    def m(self):", f"        T.append({k})", "        return self.x", f"v{k} = C{k}().m()"]
    elif c == 'deco': L = [f"def d{k}(fn):", f"    T.append(('deco', {k}))", "    return fn", f"@d{k}", f"def g{k}():", f"    return {k}", f"T.append(g{k}())"]
    elif c == 'semi': L = [f"a{k} = 1; {t}; b{k} = 2"]
    elif c == 'comment': L = [f"# a comment {k}", t]
    elif c == 'comment_in_br': L = [f"v{k} = ({t},  # trailing comment", "       # full line comment", f"       {k})"]
    elif c == 'lambda': L = [f"h{k} = lambda x: (T.append(x), x)[1]", f"v{k} = h{k}({k})"]
    elif c == 'fstr': L = [f"v{k} = f\"{{ {k}!r:>{{4}}}}'''\" + '#notcomment'", t]
    elif c == 'promptstr': L = [f"v{k} = '>>> not code # xdoctest: +SKIP'", t]
    elif c == 'backslash': L = [f"v{k} = 1 + \\", f"    {k}", t]
    elif c == 'oneline_if': L = [f"if True: {t}"]
    elif c == 'nested': L = [f"def o{k}():", "    def inner():", f"        {t}", "    inner()", "    return inner", f"o{k}()"] ; L[-1] = f"_ = o{k}()"
    elif c == 'await': L = [f"async def co{k}():", f"    {t}", f"    return {k}", f"v{k} = await co{k}()"]
    elif c == 'asyncfor': L = [f"async def ag{k}():", "    for j in range(2):", "        yield j", f"async for j{k} in ag{k}():", f"    T.append(({k}, j{k}))"]
    elif c == 'asyncwith': L = ["import contextlib", "@contextlib.asynccontextmanager", f"async def cm{k}():", f"    {t}", "    yield 1", f"async with cm{k}() as w{k}:", f"    T.append(w{k})"]
    elif c == 'aug': L = [f"v{k} = 1", f"v{k} += ({t} or 1)"]
    elif c == 'ann': L = [f"v{k}: int = ({t} or 1)"]
    elif c == 'walrus': L = [f"(w{k} := ({t} or {k}))" + " and None"] ; L = [f"_ = (w{k} := ({t} or {k}))"]
    elif c == 'star': L = [f"a{k}, *b{k} = ({t}, 1, 2)"]
    elif c == 'imp': L = ["import os.path as osp", "from collections import OrderedDict as OD", t]
    elif c == 'assert': L = [f"assert ({t} or True), 'msg'"]
    elif c == 'del': L = [f"v{k} = {t}", f"del v{k}"]
    elif c == 'global': L = [f"def gg{k}():", f"    global G{k}", f"    G{k} = {k}", f"    {t}", f"gg{k}()"]
    elif c == 'match': L = [f"match {k}:", f"    case {k}:", f"        {t}", "    case _:", "        pass"]
    elif c == 'dirstr': L = [f"v{k} = '''# xdoctest: +SKIP'''", t]
    elif c == 'valexpr': L = [f"({t} or {k}) + 1"]; valexpr = True
    return c, L, valexpr

def split_statements(L):
    """split lines into top-level statements by AST (lines are plain program lines w/o UNPREF marks)"""
    src = '\n'.join(x.replace('UNPREF4', '').replace('UNPREF0', '') for x in L)
    tree = ast.parse(src)
    starts = []
    for n in tree.body:
        ln = n.lineno
        if getattr(n, 'decorator_list', None): ln = n.decorator_list[0].lineno
        starts.append(ln - 1)
    return starts

def layout(groups, indent, wants=None):
    """groups: list of (c, L, valexpr); returns docstring text and program lines"""
    doc = []; prog = []
    for gi, (c, L, valexpr) in enumerate(groups):
        plain = [x.replace('UNPREF4', '').replace('UNPREF0', '') for x in L]
        # comment-only first line handled: ast ignores comments -> treat comment line as own 'statement'
        starts = set(split_statements(L))
        for i, x in enumerate(plain):
            if x.lstrip().startswith('#') and (i == 0): starts.add(i)
        style = rng.choice(['new', 'old', 'oldterm'])
        for i, raw in enumerate(L):
            if raw.startswith('UNPREF4'):
                body = raw[len('UNPREF4'):]; doc.append('    ' + body); prog.append(body); continue
            if raw.startswith('UNPREF0'):
                body = raw[len('UNPREF0'):]; doc.append(body); prog.append(body); continue
            prog.append(raw)
            if i in starts or style == 'new': pre = '>>> '
            else: pre = '... '
            doc.append((pre + raw).rstrip() if raw == '' else pre + raw)
        if style == 'oldterm' and len(L) > 1 and not L[-1].startswith('UNPREF') and (len(L) - 1) not in starts:
            doc.append('...')
        if wants and wants[gi]:
            doc += wants[gi]
        sep = rng.random()
        if sep < 0.15: doc.append('')
        elif sep < 0.3: doc += ['', 'Some prose between examples.', '']
    ind = indent
    text = '\n'.join((ind + d) if d else d for d in doc) + '\n'
    return text, prog

def ref_run(prog):
    T = []; ns = {'T': T}
    code = compile('\n'.join(prog) + '\n', '<ref>', 'exec', flags=ast.PyCF_ALLOW_TOP_LEVEL_AWAIT, dont_inherit=True)
    buf = io.StringIO()
    with contextlib.redirect_stdout(buf):
        if code.co_flags & CO_COROUTINE: asyncio.run(eval(code, ns))
        else: exec(code, ns)
    return T, buf.getvalue(), ns

class Snap(dict):
    def clear(self):
        self.snap = dict(self); super().clear()

def simple(v):
    return repr(v) if isinstance(v, (int, str, float, list, tuple, dict, bool, type(None))) and 'object at' not in repr(v) and 'function' not in repr(v) else type(v).__name__

stats = collections.Counter(); shown = collections.Counter()
for it in range(N):
    n = rng.randint(1, 6)
    groups = [stmt(k, None) for k in range(1, n + 1)]
    indent = rng.choice(['', '    ', '        ', '\t', '\t\t'])
    text0, prog = layout(groups, '')
    try:
        Tref, outref, nsref = ref_run(prog)
        # per group outputs
        ns2 = {'T': []}; since = ''; wants = []
        for (c, L, valexpr) in groups:
            plain = [x.replace('UNPREF4', '').replace('UNPREF0', '') for x in L]
            code = compile('\n'.join(plain) + '\n', '<ref>', 'exec', flags=ast.PyCF_ALLOW_TOP_LEVEL_AWAIT, dont_inherit=True)
            buf = io.StringIO()
            with contextlib.redirect_stdout(buf):
                if code.co_flags & CO_COROUTINE: asyncio.run(eval(code, ns2))
                else: exec(code, ns2)
            since += buf.getvalue()
            w = None
            if rng.random() < 0.5:
                if since:
                    w = since.rstrip('\n').split('\n'); since = ''
                elif valexpr:
                    w = [str(int(L[0].split(' or ')[1].split(')')[0]) + 1)]
            wants.append(w)
        st = rng.getstate()
        text, prog = layout(groups, indent, wants)
    except Exception as ex:
        stats['REF_ERROR'] += 1
        if shown['ref'] < 3: shown['ref'] += 1; print('REF ERROR', repr(ex), '\n' + '\n'.join(prog))
        continue
    T = []
    with warnings.catch_warnings(record=True) as wl, contextlib.redirect_stdout(io.StringIO()):
        warnings.simplefilter('always')
        xs = list(core.parse_docstr_examples(text, callname='c', style='freeform'))
    kinds = tuple(g[0] for g in groups)
    if len(xs) != 1:
        stats['NOT_COLLECTED'] += 1
        for kk in kinds: stats[('nc_kind', kk)] += 1
        if shown['nc'] < 12: shown['nc'] += 1; print('NOT COLLECTED', len(xs), [str(w.message)[:200] for w in wl][:1], '\n' + text)
        continue
    e = xs[0]; e.mode = 'native'; e.global_namespace = Snap(); e.global_namespace['T'] = T
    try:
        with contextlib.redirect_stdout(io.StringIO()):
            s = e.run(verbose=0, on_error='return')
    except BaseException as ex:
        stats['RUN_RAISED'] += 1; print('RUN RAISED', repr(ex), '\n' + text); continue
    out = ''.join(v for v in e.logged_stdout.values() if v)
    bad = None
    if not s['passed']: bad = 'FAILED ' + repr(s['exc_info'][1])[:120] if s['exc_info'] else 'SKIPPED'
    elif T != Tref: bad = f'TRACE {T} vs {Tref}'
    elif out != outref: bad = f'STDOUT {out!r} vs {outref!r}'
    else:
        snap = getattr(e.global_namespace, 'snap', {})
        a = {k: simple(v) for k, v in snap.items() if not k.startswith('__') and k != 'T'}
        b = {k: simple(v) for k, v in nsref.items() if not k.startswith('__') and k != 'T'}
        if a != b: bad = 'BINDINGS ' + str({k: (a.get(k), b.get(k)) for k in set(a) | set(b) if a.get(k) != b.get(k)})[:300]
    if bad:
        key = bad.split()[0]
        stats['BAD_' + key] += 1
        for kk in set(kinds): stats[('bad_kind', kk)] += 1
        if shown[key] < 4: shown[key] += 1; print('BAD', bad, kinds, '\n' + text + '=====')
    else: stats['ok'] += 1
for k, v in sorted(stats.items(), key=str): print(k, v)
