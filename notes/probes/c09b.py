from xdoctest import core
import io, contextlib
import sys
sys.path.insert(0, '/tmp/scratch/c09')
for doc in [
 ">>> from mod_c09_mixed import BadRepr\n>>> print('a') or BadRepr()\nsomething\n",
 ">>> from mod_c09_mixed import BadRepr\n>>> print('a')\n>>> BadRepr()\nsomething\n",
 ">>> class B:\n...     def __repr__(self):\n...         raise ValueError('r')\n>>> print('a') or B()\nsomething\n",
 ">>> import warnings\n>>> raise SystemExit(3)\n",
]:
    e = list(core.parse_docstr_examples(doc, callname='c', style='freeform'))[0]; e.mode='native'
    try:
        with contextlib.redirect_stdout(io.StringIO()):
            s = e.run(verbose=0, on_error='return')
            r = e.repr_failure()
        print('ok', s['failed'], type(s['exc_info'][1]).__name__, e.failed_lineno())
    except BaseException as ex:
        print('RAISED', repr(ex)[:200])
