from xdoctest import core
import textwrap, tempfile, os
src = textwrap.dedent('''
    def f():
        """
        Summary

        Example:
            some prose first

            >>> x = 1
            >>> print(x)
            2
        """
    def g():
        """
        Summary

        Example:
            >>> x = 1
            >>> print(x)
            2

        Example:

            >>> y = 1
            >>> y / 0
        """
''').lstrip('\n')
d = tempfile.mkdtemp()
p = os.path.join(d, 'mod_g1.py')
open(p,'w').write(src)
lines = src.splitlines()
for style in ['google', 'freeform']:
    print(style)
    for e in core.parse_doctestables(p, style=style, analysis='static'):
        e.mode='native'
        s = e.run(verbose=0, on_error='return')
        fl = e.failed_lineno()
        print('  ', e.unique_callname, 'lineno', e.lineno, repr(lines[e.lineno-1]), 'failed', fl, repr(lines[fl-1]) if fl else None, [ (p.line_offset, lines[e.lineno-1+p.line_offset]) for p in e._parts])
