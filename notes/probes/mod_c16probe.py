"""
Module doc

>>> print('mod')
"""
import functools
import os
from os.path import join
from collections import OrderedDict

def deco(fn):
    @functools.wraps(fn)
    def wrapper(*a, **k):
        return fn(*a, **k)
    return wrapper

def plain():
    """
    >>> print('plain')
    """

@deco
def wrapped():
    """
    >>> print('wrapped')
    """

async def acoro():
    """
    >>> print('acoro')
    """

class K:
    """
    >>> print('K')
    """
    def m(self):
        """
        >>> print('m')
        """
    @staticmethod
    def s():
        """
        >>> print('s')
        """
    @classmethod
    def c(cls):
        """
        >>> print('c')
        """
    @property
    def p(self):
        """
        >>> print('p')
        """
    @p.setter
    def p(self, v):
        """
        >>> print('p setter')
        """
    async def am(self):
        """
        >>> print('am')
        """
    @deco
    def wm(self):
        """
        >>> print('wm')
        """
    class Inner:
        """
        >>> print('Inner')
        """
        def im(self):
            """
            >>> print('im')
            """
    def __len__(self):
        """
        >>> print('len')
        """
        return 0
    def _private(self):
        """
        >>> print('priv')
        """

if True:
    def cond_def():
        """
        >>> print('cond')
        """
try:
    def try_def():
        """
        >>> print('try')
        """
except Exception:
    pass

class Sub(K):
    pass

def nodoc():
    pass

if __name__ == '__main__':
    def main_def():
        """
        >>> print('main')
        """
