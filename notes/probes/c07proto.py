import random, sys, io, contextlib, warnings, collections, os, tempfile, shutil
from xdoctest import core
rng = random.Random(int(sys.argv[1]) if len(sys.argv) > 1 else 0)
N = int(sys.argv[2]) if len(sys.argv) > 2 else 300

class Mod:
    def __init__(self): self.lines = []; self.inv = {'google': [], 'freeform': []}; self.mustnot = []; self.uid = 0
    def add(self, s): self.lines.append(s); return len(self.lines)  # returns 1-based line number
    def tok(self): self.uid += 1; return self.uid

def emit_block(m, ind, fail):
    """emit a few prompt lines at indentation ind. returns (first_prompt_line, fail_line, expected_exc)"""
    k = m.tok(); first = m.add(f"{ind}>>> x{k} = {k}")
    if rng.random() < 0.5:
        m.add(f"{ind}>>> y{k} = [x{k},"); m.add(f"{ind}...       2]")
    if rng.random() < 0.5:
        m.add(f"{ind}>>> print(x{k})"); m.add(f"{ind}{k}")
    fl = None; exc = None
    if fail == 'exc':
        fl = m.add(f"{ind}>>> raise KeyError({k})"); exc = 'KeyError'
    elif fail == 'exc_multi':
        m.add(f"{ind}>>> z{k} = (1 +"); fl = m.add(f"{ind}...      1 / 0 +"); m.add(f"{ind}...      3)"); exc = 'ZeroDivisionError'
    elif fail == 'want':
        m.add(f"{ind}>>> print('a{k}')"); fl = m.add(f"{ind}b{k}"); m.add(f"{ind}c{k}"); exc = 'GotWantException'
    else:
        m.add(f"{ind}>>> print('done{k}')"); m.add(f"{ind}done{k}")
    return first, fl, exc

def emit_docstring(m, ind, callname, collect=True):
    layout = rng.choice(['none', 'prose', 'google', 'google', 'freeform', 'freeform', 'mixed'])
    if layout == 'none': return
    q = rng.choice(['"""', "'''"]); pre = rng.choice(['', '', 'r', 'R', 'u', 'U'])
    shared = rng.random() < 0.4
    if shared: m.add(f"{ind}{pre}{q}Summary line for {callname}")
    else: m.add(f"{ind}{pre}{q}"); m.add(f"{ind}Summary line for {callname}")
    g = []; f_first = None; f_fail = None
    def rec_free(first, fl, exc):
        nonlocal f_first, f_fail
        if f_first is None: f_first = first
        if f_fail is None and fl: f_fail = (fl, exc)
    failed_already = False
    if layout == 'prose':
        m.add(''); m.add(f"{ind}Just prose, no code.")
    if layout in ('google', 'mixed'):
        if rng.random() < 0.5:
            m.add(''); m.add(f"{ind}Args:"); m.add(f"{ind}    a (int): something")
        for b in range(rng.randint(1, 3)):
            m.add(''); m.add(ind + rng.choice(['Example:', 'Examples:', 'Doctest:', 'Example::', 'Example :']))
            lead = rng.random() < 0.25
            body_line = len(m.lines) + 1
            if lead: m.add(''); 
            fail = rng.choice([None, None, 'exc', 'exc_multi', 'want'])
            first, fl, exc = emit_block(m, ind + '    ', fail)
            g.append((first, body_line, fl, exc, lead))
            rec_free(first, fl if not failed_already else None, exc); failed_already = failed_already or bool(fl)
    if layout in ('freeform', 'mixed'):
        for b in range(rng.randint(1, 2)):
            m.add(''); m.add(f"{ind}Some prose before a group."); 
            if rng.random() < 0.5: m.add('')
            fail = rng.choice([None, None, 'exc', 'want']) if not failed_already else None
            first, fl, exc = emit_block(m, ind + rng.choice(['', '    ']), fail)
            rec_free(first, fl, exc); failed_already = failed_already or bool(fl)
    m.add(f"{ind}{q}")
    if collect:
        for num, (first, body_line, fl, exc, lead) in enumerate(g):
            m.inv['google'].append((callname, num, first, body_line, fl, exc, lead))
        if f_first is not None:
            m.inv['freeform'].append((callname, 0, f_first, f_first, f_fail[0] if f_fail else None, f_fail[1] if f_fail else None, False))
    else:
        m.mustnot.append(callname)

def emit_func(m, ind, name, callname, collect=True, is_async=False, decos=()):
    for d in decos: m.add(f"{ind}@{d}")
    sig = rng.choice(['(self=None)', '(self=None, a=1,\n{i}        b=2)'.replace('{i}', ind)])
    for part in (f"{ind}{'async ' if is_async else ''}def {name}{sig}:").split('\n'): m.add(part)
    emit_docstring(m, ind + '    ', callname, collect)
    if rng.random() < 0.4:
        m.add(f"{ind}    def inner_{name}():"); emit_docstring(m, ind + '        ', f'inner_{name}', collect=False); m.add(f"{ind}        pass")
    m.add(f"{ind}    return 1"); 
    if rng.random() < 0.5: m.add('')

def gen_module():
    m = Mod()
    if rng.random() < 0.5:
        emit_docstring(m, '', '__doc__')
        if not m.lines: pass
    m.add('import functools'); m.add('')
    m.add('def deco(fn):'); m.add('    @functools.wraps(fn)'); m.add('    def wrapper(*a, **k):'); m.add('        return fn(*a, **k)'); m.add('    return wrapper'); m.add('')
    for i in range(rng.randint(2, 7)):
        kind = rng.choice(['def', 'def', 'async', 'class', 'class', 'deco', 'cond', 'try', 'main', 'asyncdeco'])
        name = f'item{i}'
        if kind == 'def': emit_func(m, '', name, name)
        elif kind == 'async': emit_func(m, '', name, name, is_async=True)
        elif kind == 'deco': emit_func(m, '', name, name, decos=rng.choice([('deco',), ('deco', 'deco')]))
        elif kind == 'asyncdeco': emit_func(m, '', name, name, is_async=True, decos=('deco',))
        elif kind == 'cond': m.add('if True:'); emit_func(m, '    ', name, name)
        elif kind == 'try':
            m.add('try:'); emit_func(m, '    ', name, name); m.add('except Exception:'); m.add('    pass')
        elif kind == 'main':
            m.add("if __name__ == '__main__':"); emit_func(m, '    ', name, name, collect=False)
        elif kind == 'class':
            m.add(f'class {name}(object):'); emit_docstring(m, '    ', name); m.add('    attr = 1')
            for j in range(rng.randint(1, 4)):
                mk = rng.choice(['plain', 'static', 'cls', 'prop', 'async', 'wrapped', 'nestedcls'])
                mn = f'm{j}'
                if mk == 'plain': emit_func(m, '    ', mn, f'{name}.{mn}')
                elif mk == 'static': emit_func(m, '    ', mn, f'{name}.{mn}', decos=('staticmethod',))
                elif mk == 'cls': emit_func(m, '    ', mn, f'{name}.{mn}', decos=('classmethod',))
                elif mk == 'async': emit_func(m, '    ', mn, f'{name}.{mn}', is_async=True)
                elif mk == 'wrapped': emit_func(m, '    ', mn, f'{name}.{mn}', decos=('deco',))
                elif mk == 'prop':
                    emit_func(m, '    ', mn, f'{name}.{mn}', decos=('property',))
                    m.add(f'    @{mn}.setter'); m.add(f'    def {mn}(self, v):'); emit_docstring(m, '        ', f'{name}.{mn}.setter', collect=False); m.add('        pass')
                elif mk == 'nestedcls':
                    m.add(f'    class Inner{j}:'); emit_docstring(m, '        ', f'Inner{j}', collect=False); m.add('        def im(self):'); emit_docstring(m, '            ', 'im', collect=False); m.add('            pass')
    return m

stats = collections.Counter(); shown = collections.Counter()
d = tempfile.mkdtemp()
try:
  for it in range(N):
    m = gen_module()
    path = os.path.join(d, f'mod_c07_{it}.py'); open(path, 'w').write('\n'.join(m.lines) + '\n')
    for style in ['google', 'freeform', 'auto']:
        with warnings.catch_warnings(record=True) as wl, contextlib.redirect_stdout(io.StringIO()):
            warnings.simplefilter('always')
            try:
                exs = list(core.parse_doctestables(path, style=style, analysis='static'))
            except Exception as ex:
                stats['COLLECT_RAISED'] += 1
                if shown['cr'] < 2: shown['cr'] += 1; print('COLLECT RAISED', repr(ex), path)
                continue
        if style == 'auto':
            gnames = {c for c, *_ in m.inv['google']}
            exp = [x for x in m.inv['google']] + [x for x in m.inv['freeform'] if x[0] not in gnames]
        else: exp = m.inv[style]
        got = sorted((e.callname, e.num) for e in exs); want = sorted((c, n) for c, n, *_ in exp)
        stats['n'] += 1
        if got != want:
            stats['BAD_inventory'] += 1
            if shown['inv'] < 4:
                shown['inv'] += 1; print('INVENTORY', style, 'missing', sorted(set(want) - set(got)), 'extra', sorted(set(got) - set(want)), path)
            continue
        expd = {(c, n): rest for c, n, *rest in exp}
        for e in exs:
            first, body_line, fl, exc, lead = expd[(e.callname, e.num)]
            e.mode = 'native'
            with contextlib.redirect_stdout(io.StringIO()):
                s = e.run(verbose=0, on_error='return')
            got_exc = type(s['exc_info'][1]).__name__ if s['exc_info'] else None
            stats['doctests'] += 1
            if e.lineno != first:
                k = 'BAD_start_lead' if lead else 'BAD_start'
                stats[k] += 1
                if not lead and shown['st'] < 4: shown['st'] += 1; print('START', style, e.callname, e.num, e.lineno, first, repr(m.lines[e.lineno - 1]), path)
            if got_exc != exc: stats['BAD_verdict'] += 1; print('VERDICT', e.callname, got_exc, exc)
            elif fl is not None and e.failed_lineno() != fl:
                stats['BAD_failline'] += 1
                if shown['fl'] < 4: shown['fl'] += 1; print('FAILLINE', style, e.callname, e.failed_lineno(), fl, path)
            for p in e._parts:
                ln = e.lineno + p.line_offset
                if m.lines[ln - 1].strip() != p.orig_lines[0].strip(): stats['BAD_partoffset'] += 1
finally:
    if '--keep' not in sys.argv: shutil.rmtree(d)
print(dict(stats))
