from xdoctest import core
import io, contextlib
for doc in [">>> a = 1\n>>> print('x')\n>>> 5\nx\n", ">>> a = 1; b = 2\n>>> print('x')\n>>> 5\nx\n", ">>> a = 1; b = 2\n>>> print('x')\n>>> 5\nx\n5\n", ">>> a = 1; b = 2\n>>> 5\n5\n"]:
    e = list(core.parse_docstr_examples(doc, callname='c', style='freeform'))[0]; e.mode='native'
    with contextlib.redirect_stdout(io.StringIO()):
        s = e.run(verbose=0, on_error='return')
    print(repr(doc), 'passed' if s['passed'] else 'FAILED', [p.compile_mode for p in e._parts])
