"""
Module docstring

Example:
    >>> print('module level')
    module level
"""
G = 'orig'

def f_pass():
    """
    Example:
        >>> print(1)
        1
    """

def f_fail_out():
    """
    Example:
        >>> print(1)
        2
    """

def f_fail_exc():
    """
    Example:
        >>> raise ValueError('x')
    """

def f_all_skipped():
    """
    Example:
        >>> # xdoctest: +SKIP
        >>> print(1)
        2
    """

def f_partly_skipped():
    """
    Example:
        >>> print(1)  # xdoctest: +SKIP
        2
        >>> print(3)
        3
    """

def f_expected_exc():
    """
    Example:
        >>> raise ValueError('x')
        Traceback (most recent call last):
        ValueError: x
    """

def f_disabled():
    """
    Example:
        >>> # DISABLE_DOCTEST
        >>> print(1)
        2
    """

def f_comment_only():
    """
    Example:
        >>> # just a comment
    """

def f_two_blocks():
    """
    Example:
        >>> print(1)
        1

    Example:
        >>> print(1)
        5
    """

class K:
    def m(self):
        """
        Example:
            >>> print('m')
            m
        """
    @property
    def p(self):
        """
        Example:
            >>> print('p')
            q
        """
