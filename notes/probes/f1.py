from xdoctest import core
import textwrap, traceback
def run(doc, verbose=0, **kw):
    ex = list(core.parse_docstr_examples(textwrap.dedent(doc), callname='t', style='freeform'))
    for e in ex:
        e.mode = 'native'
        try:
            s = e.run(verbose=verbose, on_error='return', **kw)
            print('summary', s['passed'], s['failed'], s['skipped'], s['exc_info'] and repr(s['exc_info'][1]))
        except BaseException as exn:
            print('RUN RAISED', type(exn).__name__, exn)
            continue
        try:
            lines = e.repr_failure()
            print('repr ok', len(lines), 'failed_lineno', e.failed_lineno())
        except BaseException as exn:
            print('REPR RAISED', type(exn).__name__, exn)
print('--F1')
run('''
    >>> def helper(x):
    ...     a = 1
    ...     b = 2
    ...     c = 3
    ...     d = 4
    ...     raise ValueError('boom')
    >>> print('hi')
    hi
    >>> helper(1)
''')
print('--F1 verbose 3')
import io, contextlib
buf = io.StringIO()
with contextlib.redirect_stdout(buf):
    pass
run('''
    >>> def helper(x):
    ...     a = 1
    ...     b = 2
    ...     c = 3
    ...     d = 4
    ...     raise ValueError('boom')
    >>> print('hi')
    hi
    >>> helper(1)
''', verbose=3)
print('--F4')
run('''
    >>> x = 1
    >>> return 5
''')
run('''
    >>> x = 1
    >>> print(x)
    1
    >>> break
''')
