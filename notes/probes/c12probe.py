from xdoctest import core
import sys, warnings, asyncio, io, contextlib, os
bodies = {
 'stdout': ">>> import sys, io\n>>> sys.stdout = io.StringIO()\n>>> print('x')\n",
 'warn': ">>> import warnings\n>>> warnings.simplefilter('error')\n>>> warnings.showwarning = lambda *a, **k: None\n",
 'await': ">>> import asyncio\n>>> await asyncio.sleep(0)\n>>> t = asyncio.ensure_future(asyncio.sleep(10)) if False else None\n",
 'sysexit': ">>> print('a')\n>>> raise SystemExit(3)\n",
 'kbd': ">>> print('a')\n>>> raise KeyboardInterrupt\n",
 'exc': ">>> import sys, io\n>>> sys.stdout = io.StringIO()\n>>> 1/0\n",
 'mismatch': ">>> import warnings; warnings.simplefilter('ignore')\n>>> print(1)\n2\n",
 'exit': ">>> import xdoctest\n>>> raise xdoctest.ExitTestException()\n>>> 1/0\n",
 'compile': ">>> x = 1\n>>> return 3\n",
}
for name, doc in bodies.items():
    for on_error in ['return', 'raise']:
        e = list(core.parse_docstr_examples(doc, callname='c', style='freeform'))[0]; e.mode = 'native'
        so, se, sp, wf, sw = sys.stdout, sys.stderr, list(sys.path), list(warnings.filters), warnings.showwarning
        res = 'ok'
        try:
            e.run(verbose=0, on_error=on_error)
        except BaseException as ex:
            res = type(ex).__name__
        bad = []
        if sys.stdout is not so: bad.append('stdout'); sys.stdout = so
        if sys.stderr is not se: bad.append('stderr')
        if sys.path != sp: bad.append('path')
        if warnings.filters != wf: bad.append('filters'); warnings.filters[:] = wf
        if warnings.showwarning is not sw: bad.append('showwarning'); warnings.showwarning = sw
        if asyncio._get_running_loop() is not None: bad.append('loop')
        print(name, on_error, res, 'LEAK ' + ','.join(bad) if bad else 'clean')
