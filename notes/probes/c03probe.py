from xdoctest import core, checker
import io, contextlib, warnings, itertools
def run(text, opts=None):
    T = []
    with warnings.catch_warnings(record=True), contextlib.redirect_stdout(io.StringIO()):
        warnings.simplefilter('always')
        e = list(core.parse_docstr_examples(text, callname='c', style='freeform'))[0]
        e.mode = 'native'; e.global_namespace['T'] = T
        if opts: e.config['default_runtime_state'] = opts
        s = e.run(verbose=0, on_error='return')
    return ('pass' if s['passed'] else 'fail:' + type(s['exc_info'][1]).__name__), T
HDR = 'Traceback (most recent call last):'
cases = {
 'builtin': ("raise ValueError('bad: thing')", 'ValueError: bad: thing', 'ValueError'),
 'empty': ("raise KeyError", 'KeyError', 'KeyError'),
 'multiline': ("raise ValueError('l1\\nl2')", 'ValueError: l1\nl2', 'ValueError'),
 'dotted': ("import json; json.loads('{')", "json.decoder.JSONDecodeError: Expecting property name enclosed in double quotes: line 1 column 2 (char 1)", 'JSONDecodeError'),
 'userdef': ("class MyErr(Exception): pass\n>>> raise MyErr('u')", 'MyErr: u', 'MyErr'),
 'called': ("int('zz')", "ValueError: invalid literal for int() with base 10: 'zz'", 'ValueError'),
 'ellmsg': ("raise ValueError('a...b')", 'ValueError: a...b', 'ValueError'),
}
for name, (stmt, final, typ) in cases.items():
    wants = {
      'none': None,
      'exact': HDR + '\n' + final,
      'stack': HDR + '\n    File "x", line 1\n      foo\n' + final,
      'wrongmsg': HDR + '\n' + final.split(':')[0] + ': something else entirely',
      'wrongtype': HDR + '\n' + 'OSError' + final[len(final.split(':')[0]):],
      'nontb': 'some ordinary text',
      'nontb_final': final,
      'ellipsis': HDR + '\n' + final.split(':')[0] + ': ...' if ':' in final else HDR + '\n...',
      'shortname': HDR + '\n' + final[final.index(typ):] ,
    }
    for wn, w in wants.items():
        row = []
        for flags in [{}, {'IGNORE_EXCEPTION_DETAIL': True}, {'ELLIPSIS': False}, {'IGNORE_WANT': True}]:
            text = '>>> T.append(1)\n>>> ' + stmt + '\n' + ((w + '\n') if w else '') + '>>> T.append(2)\n'
            r, T = run(text, flags)
            row.append(f'{r}/{T}')
        print(f'{name:9s} {wn:12s}', ' | '.join(row))
