import sys, io, contextlib, warnings, collections, ast, asyncio, os, tempfile, re
import c01gen as G
from inspect import CO_COROUTINE
from xdoctest import core, runner
G.rng.seed(int(sys.argv[1]) if len(sys.argv) > 1 else 0)
N = int(sys.argv[2]) if len(sys.argv) > 2 else 1000
rng = G.rng
stats = collections.Counter(); shown = collections.Counter()
def mk():
    n = rng.randint(1, 6)
    groups = [G.stmt(k, None) for k in range(1, n + 1)]
    text0, prog = G.layout(groups, '')
    ns2 = {'T': []}; since = ''; wants = []
    for (c, L, valexpr) in groups:
        plain = [x.replace('UNPREF4', '').replace('UNPREF0', '') for x in L]
        code = compile('\n'.join(plain) + '\n', '<ref>', 'exec', flags=ast.PyCF_ALLOW_TOP_LEVEL_AWAIT, dont_inherit=True)
        buf = io.StringIO()
        with contextlib.redirect_stdout(buf):
            if code.co_flags & CO_COROUTINE: asyncio.run(eval(code, ns2))
            else: exec(code, ns2)
        since += buf.getvalue(); w = None
        if rng.random() < 0.5 and since: w = since.rstrip('\n').split('\n'); since = ''
        wants.append(w)
    indent = rng.choice(['', '    '])
    text, prog = G.layout(groups, indent, wants)
    return groups, wants, text, prog
def parts_sig(e):
    out = []; acc = []
    for p in e._parts:
        acc += p.exec_lines
        if p.want_lines:
            out.append((acc, p.want_lines, p.compile_mode)); acc = []
    if acc: out.append((acc, None, 'exec'))
    return out
for it in range(N):
    groups, wants, text, prog = mk()
    with warnings.catch_warnings(record=True), contextlib.redirect_stdout(io.StringIO()):
        warnings.simplefilter('always')
        xs = list(core.parse_docstr_examples(text, callname='c', style='freeform'))
    if len(xs) != 1: stats['nc'] += 1; continue
    e = xs[0]
    # (1) exec lines equal program lines
    flat_exec = [l for p in e._parts for l in p.exec_lines]
    if [l for l in flat_exec if l != ''] != [l for l in prog if l != '']:
        stats['BAD_exec_vs_prog'] += 1
        if shown['a'] < 3: shown['a'] += 1; print('EXEC != PROG\n', flat_exec, '\n', prog, '\n' + text)
        continue
    flat_w = [l for p in e._parts for l in (p.want_lines or [])]
    exp_w = [l for w in wants if w for l in w]
    if [l.strip() for l in flat_w] != [l.strip() for l in exp_w]: stats['BAD_wants'] += 1
    # (2) format -> reparse
    f = e.format_src(linenos=False, colored=False, want=True, prefix=True)
    with warnings.catch_warnings(record=True), contextlib.redirect_stdout(io.StringIO()):
        warnings.simplefilter('always')
        ys = list(core.parse_docstr_examples(f, callname='c', style='freeform'))
    if len(ys) != 1: stats['BAD_reparse_nc'] += 1; print('REPARSE NC\n' + f); continue
    if parts_sig(ys[0]) != parts_sig(e):
        stats['BAD_roundtrip'] += 1
        if shown['r'] < 4:
            shown['r'] += 1; print('ROUNDTRIP DIFF\n' + text + '--- formatted\n' + f + '\n---')
            for a, b in zip(parts_sig(e), parts_sig(ys[0])):
                if a != b: print('  ', a, '\n  ', b)
        continue
    # prefix=False gives program
    f2 = e.format_src(linenos=False, colored=False, want=False, prefix=False)
    if [l for l in f2.split('\n') if l] != [l for l in prog if l]: stats['BAD_noprefix'] += 1
    # (3) line numbers
    f3 = e.format_src(linenos=True, colored=False, want=True, prefix=True)
    nums = [int(m.group(1)) for m in (re.match(r'\s*(\d+) (>>>|\.\.\.|\S|$)', ln) for ln in f3.split('\n')) if m]
    stats['ok'] += 1
print(dict(stats))
