G = 'orig'
def getG():
    return G
def d_define():
    """
    >>> X = 5
    >>> print(X)
    5
    """
def d_read():
    """
    >>> print(X)
    """
def d_default():
    """
    >>> print(globals().get('X', 'unset'))
    unset
    >>> X = 1
    """
def d_rebind():
    """
    >>> G = 'changed'
    >>> print(G)
    changed
    """
def d_checkG():
    """
    >>> print(G, getG())
    orig orig
    """
def d_skip_on():
    """
    >>> print('s')
    s
    >>> # xdoctest: +SKIP
    """
def d_req_on():
    """
    >>> print('r')
    r
    >>> # xdoctest: +REQUIRES(module:vp_nonexistent)
    """
def d_ndiff_on():
    """
    >>> print('n')
    n
    >>> # xdoctest: +REPORT_NDIFF
    """
def d_badwant():
    """
    >>> print('l1\\nl2\\nl3\\nl4')
    l1
    lX
    l3
    l4
    """
def d_stdout():
    """
    >>> import sys, io
    >>> sys.stdout = io.StringIO()
    >>> print('lost')
    """
def d_warnerr():
    """
    >>> import warnings
    >>> warnings.simplefilter('error')
    """
def d_warn():
    """
    >>> import warnings
    >>> warnings.warn('w')
    >>> print('after')
    after
    """
def d_phase():
    """
    >>> # xdoctest: +REQUIRES(env:VP_PHASE==2)
    >>> print('b')
    a
    b
    >>> # xdoctest: -REQUIRES(env:VP_PHASE==2)
    >>> print('a')
    """
