import xdoctest, io, contextlib, sys, traceback
from xdoctest import core
for mod in ['/tmp/scratch/c09/mod_c09_importerr.py', '/tmp/scratch/c09/mod_c09_mixed.py']:
    for v in [0, 1, 2, 3]:
        buf = io.StringIO()
        try:
            with contextlib.redirect_stdout(buf):
                rs = xdoctest.doctest_module(mod, command='all', argv=[''], verbose=v, style='freeform')
            print(mod[-20:], 'v', v, {k: rs[k] for k in ['n_total','n_passed','n_failed','n_skipped']}, [e.callname for e in rs['failed']])
        except BaseException as ex:
            print(mod[-20:], 'v', v, 'RAISED', repr(ex)[:200])
    for e in core.parse_doctestables(mod, style='freeform'):
        e.mode = 'native'
        for v in [0, 3]:
            try:
                with contextlib.redirect_stdout(io.StringIO()):
                    s = e.run(verbose=v, on_error='return')
                    lines = e.repr_failure()
                txt = '\n'.join(lines)
                print('   ', e.callname, 'v', v, 'failed' if s['failed'] else 'ok', [l for l in lines if 'REASON' in l], e.failed_lineno())
            except BaseException as ex:
                print('   ', e.callname, 'v', v, 'RAISED', repr(ex)[:150])
