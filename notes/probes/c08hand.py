from xdoctest import core
import textwrap, tempfile, os, io, contextlib, re
def check(src, style, label):
    d = tempfile.mkdtemp()
    p = os.path.join(d, 'mod_c08_%s.py' % label)
    open(p,'w').write(src)
    lines = src.split('\n')
    for e in core.parse_doctestables(p, style=style, analysis='static'):
        e.mode='native'
        with contextlib.redirect_stdout(io.StringIO()):
            s = e.run(verbose=0, on_error='return')
        fl = e.failed_lineno()
        startline = lines[e.lineno-1]
        ok_start = 'START' in startline
        ok_fail = (fl is None) or ('FAIL' in lines[fl-1])
        print(label, style, e.unique_callname, 'start_ok' if ok_start else 'START WRONG %d %r' % (e.lineno, startline), 'fail_ok' if ok_fail else 'FAIL WRONG %r %r' % (fl, lines[fl-1] if fl and fl <= len(lines) else None), type(s['exc_info'][1]).__name__ if s['exc_info'] else s)

src = '''
import os


@staticmethod
def f(a,
      b=2):
    """Summary on the first line

    Example:
        >>> x = 1  # START
        >>> y = [
        ...     1,
        ...     2]
        >>> print(x)
        1
        >>> print(y)
        [1, 3]  # FAIL
    """

class A:

    class_attr = 1

    def m(self):
        \'\'\'
        freeform text

            >>> x = 1  # START
            >>> z = (1 +
            ...      1 / 0 +  # FAIL
            ...      3)
        \'\'\'

    @property
    def p(self):
        """
        Doctest:
            >>> def helper():  # START
            ...     a = 1
            ...     raise ValueError('x')
            >>> print('hi')
            hi
            >>> print('a'); helper()  # FAIL
        """

def g():
    r"""
    Example:
        >>> x = 1  # START
        >>> print(x)
        2  # FAIL
    """

def h():
    """ Example:
        >>> x = 1  # START
        >>> os.path.join(1, 2)  # FAIL
    """

def k():
    """
    Some text.

    >>> x = 1  # START
    >>> x
    1

    More text.

    >>> for i in range(3):
    ...     if i == 2:
    ...         raise KeyError(i)  # FAIL
    """
'''
for style in ['google', 'freeform', 'auto']:
    check(src, style, 'a')
